#!/usr/bin/env bash
# One entry point for every property check.
#   ./check.sh <Cxx> quick|thorough        run the check (honours VERIF_SEED, default 1)
#   ./check.sh <Cxx> --replay <file>       re-run one saved failing case
# Exit 0: property held on everything explored (KNOWN-FINDING lines possible)
# Exit 1: violation, with a line "VIOLATION property=<id> replay=<path>"
# Exit 2: infrastructure/oracle/build problem or watchdog; never a verdict about the property
#
# Environment: HPKE_TREE=<dir> checks a scratch copy of the repository instead of /repo (used only
# by selftest/run.sh); VERIF_TARGET=<dir> overrides the build directory.
set -u
ROOT="$(cd "$(dirname "${BASH_SOURCE[0]}")" && pwd)"
cd "$ROOT"
export VERIF_ROOT="${VERIF_ROOT:-$ROOT}"
export CARGO_NET_OFFLINE=true
ID="${1:-}"; ARG2="${2:-quick}"
if [[ -z "$ID" ]]; then echo "usage: $0 <Cxx> quick|thorough | $0 <Cxx> --replay <file>" >&2; exit 2; fi
TREE="${HPKE_TREE:-/repo}"
TARGET="${VERIF_TARGET:-$ROOT/target/harness}"
mkdir -p "$TARGET" "$ROOT/evidence" "$ROOT/replays"

# --- build the harness against the current working tree of $TREE, hooks on -------------------------
# cargo's fingerprint for path dependencies is mtime based; a tree restored with older mtimes would
# go unnoticed, so keep a content hash and force a rebuild of hpke when it changes.
tree_hash() { (cd "$TREE" && cat Cargo.toml $(find src -type f -name '*.rs' | LC_ALL=C sort) | sha256sum | cut -d' ' -f1); }
build_harness() {
  local h; h="$(tree_hash)"
  local cfg=()
  if [[ "$TREE" != "/repo" ]]; then cfg=(--config "paths=[\"$TREE\"]"); fi
  (
    flock 9
    if [[ ! -f "$TARGET/.tree_hash" || "$(cat "$TARGET/.tree_hash")" != "$h|$TREE" ]]; then
      (cd "$ROOT/harness" && cargo clean --release -p hpke --target-dir "$TARGET" "${cfg[@]}" >/dev/null 2>&1 || true)
    fi
    if ! (cd "$ROOT/harness" && cargo build --release --target-dir "$TARGET" "${cfg[@]}" >"$TARGET/build.log" 2>&1); then
      # C17's oracle is its own cargo invocations on the tree (the driver never executes hpke code),
      # so a tree that no longer compiles with all features must not turn C17 into "inconclusive":
      # fall back to the driver binary of the last successful build.
      if [[ "$ID" == "C17" && -x "$TARGET/release/hv.last" ]]; then
        echo "note: the harness does not build against this tree; C17 runs with the last built driver" >&2
        cp "$TARGET/release/hv.last" "$TARGET/release/hv.c17"
        exit 0
      fi
      echo "INFRA harness build failed (see $TARGET/build.log)" >&2
      tail -n 30 "$TARGET/build.log" >&2
      exit 2
    fi
    cp "$TARGET/release/hv" "$TARGET/release/hv.last"
    rm -f "$TARGET/release/hv.c17"
    echo "$h|$TREE" > "$TARGET/.tree_hash"
  ) 9>"$TARGET/.build.lock" || exit 2
}

case "$ID" in
  C17) ;; # C17 builds per feature subset itself; it still uses hv as its driver
esac
build_harness || exit 2
HV="$TARGET/release/hv"
if [[ "$ID" == "C17" && -x "$TARGET/release/hv.c17" ]]; then HV="$TARGET/release/hv.c17"; fi
export HPKE_TREE="$TREE" VERIF_TARGET_BASE="${VERIF_TARGET_BASE:-$ROOT/target}"

if [[ "$ARG2" == "--replay" ]]; then
  FILE="${3:-}"; [[ -f "$FILE" ]] || { echo "INFRA no such replay file: $FILE" >&2; exit 2; }
  exec "$HV" replay "$ID" "$FILE"
fi
TIER="$ARG2"
case "$TIER" in quick) WD=1200;; thorough) WD=5400;; *) echo "unknown tier $TIER" >&2; exit 2;; esac
export VERIF_TIER="$TIER"
timeout --signal=KILL "$WD" "$HV" check "$ID" "$TIER"
rc=$?
if [[ $rc -eq 137 ]]; then echo "INFRA watchdog: $ID $TIER exceeded ${WD}s" >&2; exit 2; fi
if [[ $rc -ne 0 && $rc -ne 1 ]]; then exit 2; fi
exit $rc
