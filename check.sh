#!/usr/bin/env bash
# One entry point for every property check.
#   ./check.sh <Cxx> quick|thorough        run the check (honours VERIF_SEED, default 1)
#   ./check.sh <Cxx> --replay <file>       re-run one saved failing case
# Exit 0: property held on everything explored (KNOWN-FINDING lines possible)
# Exit 1: violation, with a line "VIOLATION property=<id> replay=<path>"
# Exit 2: infrastructure/oracle/build problem or watchdog; never a verdict about the property
#
# Environment: HPKE_TREE=<dir> checks a scratch copy of the repository instead of /repo (used only
# by selftest/run.sh); VERIF_TARGET=<dir> overrides the build directory.
set -u
ROOT="$(cd "$(dirname "${BASH_SOURCE[0]}")" && pwd)"
cd "$ROOT"
export VERIF_ROOT="${VERIF_ROOT:-$ROOT}"
export CARGO_NET_OFFLINE=true
ID="${1:-}"; ARG2="${2:-quick}"
if [[ -z "$ID" ]]; then echo "usage: $0 <Cxx> quick|thorough | $0 <Cxx> --replay <file>" >&2; exit 2; fi
TREE="${HPKE_TREE:-/repo}"
TARGET="${VERIF_TARGET:-$ROOT/target/harness}"
mkdir -p "$TARGET" "$ROOT/evidence" "$ROOT/replays"

# --- build the harness against the current working tree of $TREE, hooks on -------------------------
# cargo's fingerprint for path dependencies is mtime based; a tree restored with older mtimes would
# go unnoticed, so keep a content hash and force a rebuild of hpke when it changes.
tree_hash() { (cd "$TREE" && cat Cargo.toml $(find src -type f -name '*.rs' | LC_ALL=C sort) | sha256sum | cut -d' ' -f1); }
build_harness() {
  local h; h="$(tree_hash)"
  local cfg=()
  if [[ "$TREE" != "/repo" ]]; then cfg=(--config "paths=[\"$TREE\"]"); fi
  (
    flock 9
    if [[ ! -f "$TARGET/.tree_hash" || "$(cat "$TARGET/.tree_hash")" != "$h|$TREE" ]]; then
      (cd "$ROOT/harness" && cargo clean --release -p hpke --target-dir "$TARGET" "${cfg[@]}" >/dev/null 2>&1 || true)
    fi
    if ! (cd "$ROOT/harness" && cargo build --release --target-dir "$TARGET" "${cfg[@]}" >"$TARGET/build.log" 2>&1); then
      # C17's oracle is its own cargo invocations on the tree (the driver never executes hpke code),
      # so a tree that no longer compiles with all features must not turn C17 into "inconclusive":
      # fall back to the driver binary of the last successful build.
      if [[ "$ID" == "C17" && -x "$TARGET/release/hv.last" ]]; then
        echo "note: the harness does not build against this tree; C17 runs with the last built driver" >&2
        cp "$TARGET/release/hv.last" "$TARGET/release/hv.c17"
        exit 0
      fi
      echo "INFRA harness build failed (see $TARGET/build.log)" >&2
      tail -n 30 "$TARGET/build.log" >&2
      exit 2
    fi
    cp "$TARGET/release/hv" "$TARGET/release/hv.last"
    rm -f "$TARGET/release/hv.c17"
    echo "$h|$TREE" > "$TARGET/.tree_hash"
  ) 9>"$TARGET/.build.lock" || exit 2
}

case "$ID" in
  C17) ;; # C17 builds per feature subset itself; it still uses hv as its driver
esac
build_harness || exit 2
HV="$TARGET/release/hv"
if [[ "$ID" == "C17" && -x "$TARGET/release/hv.c17" ]]; then HV="$TARGET/release/hv.c17"; fi
export HPKE_TREE="$TREE" VERIF_TARGET_BASE="${VERIF_TARGET_BASE:-$ROOT/target}"

if [[ "$ARG2" == "--replay" ]]; then
  FILE="${3:-}"; [[ -f "$FILE" ]] || { echo "INFRA no such replay file: $FILE" >&2; exit 2; }
  exec "$HV" replay "$ID" "$FILE"
fi
TIER="$ARG2"
case "$TIER" in quick) WD=1200;; thorough) WD=5400;; *) echo "unknown tier $TIER" >&2; exit 2;; esac
export VERIF_TIER="$TIER"

# --- thorough tier: coverage-guided libFuzzer campaigns with the same oracles inside the targets ---
fuzz_targets_for() {
  case "$1" in
    C02|C14) echo "fz_session";;
    C04) echo "fz_sender";;
    C05) echo "fz_receiver";;
    C09|C12) echo "fz_deser";;
    C13) echo "fz_deser fz_open fz_receiver";;
    *) echo "";;
  esac
}
run_fuzz() {
  local targets; targets="$(fuzz_targets_for "$ID")"
  [[ -z "$targets" ]] && return 0
  local FT="$VERIF_TARGET_BASE/fuzz" FW="$VERIF_TARGET_BASE/fuzzwork/$ID"
  # cargo-fuzz takes no --config; a scratch tree is selected through a cargo config file found from
  # the directory cargo is started in
  local FCWD="$ROOT"
  if [[ "$TREE" != "/repo" ]]; then
    FCWD="$VERIF_TARGET_BASE/fuzzcwd"; mkdir -p "$FCWD/.cargo"
    printf 'paths = ["%s"]\n[net]\noffline = true\n' "$TREE" > "$FCWD/.cargo/config.toml"
  fi
  local secs="${VERIF_FUZZ_SECONDS:-150}" seed="${VERIF_SEED:-1}"; [[ "$seed" == "0" ]] && seed=1
  (
    flock 8
    if ! (cd "$FCWD" && RUSTFLAGS="--cfg hpke_verif" cargo +nightly fuzz build -s none --fuzz-dir "$ROOT/fuzz" --target-dir "$FT" >"$FT.build.log" 2>&1); then
      echo "INFRA fuzz build failed (see $FT.build.log)" >&2; tail -n 20 "$FT.build.log" >&2; exit 2
    fi
  ) 8>"$VERIF_TARGET_BASE/.fuzz.lock" || return 2
  rm -rf "$FW"; mkdir -p "$FW"
  local stats="$FW/stats.json"; echo "[" > "$stats"; local first=1 rc=0
  for t in $targets; do
    local bin="$FT/x86_64-unknown-linux-gnu/release/$t" corpus="$FW/$t.corpus" art="$FW/$t.artifacts/"
    mkdir -p "$corpus" "$art"
    "$HV" fuzz-seeds "$t" "$corpus"
    local maxlen=512; [[ "$t" == "fz_open" ]] && maxlen=4096
    # a time budget running out means "nothing found in budget", never a verdict
    timeout --signal=KILL $((secs + 120)) "$bin" -fork=16 -max_total_time="$secs" -seed="$seed" -len_control=0 -max_len="$maxlen" \
        -timeout=60 -rss_limit_mb=4096 -artifact_prefix="$art" "$corpus" >"$FW/$t.log" 2>&1
    local execs; execs="$(grep -oE '^#[0-9]+' "$FW/$t.log" | tail -n1 | tr -d '#')"; execs="${execs:-0}"
    local ncorp; ncorp="$(find "$corpus" -type f | wc -l)"
    # how many corpus entries decode to non-trivial cases, measured in-process outside libFuzzer
    local nt; nt="$(find "$corpus" -type f -print0 | xargs -0 -r "$HV" fuzz-replay "$t" 2>/dev/null | grep -oE 'nontrivial=[0-9]+' | cut -d= -f2 | awk '{s+=$1} END {print s+0}')"
    [[ $first -eq 1 ]] || echo "," >> "$stats"; first=0
    echo "{\"target\": \"$t\", \"engine\": \"libFuzzer -fork=16, no sanitizer, debug assertions on\", \"seconds\": $secs, \"executions\": $execs, \"final_corpus\": $ncorp, \"nontrivial_corpus_entries\": ${nt:-0}}" >> "$stats"
    # artifacts are re-decoded and re-checked outside libFuzzer: only a reproduced oracle failure counts
    # slow-unit-* files are libFuzzer's report of inputs that took long on a busy machine, not failures
    local arts; arts="$(find "$art" -type f ! -name 'slow-unit-*' 2>/dev/null | head -n 20)"
    if [[ -n "$arts" ]]; then
      local rep; rep="$(echo "$arts" | xargs "$HV" fuzz-replay "$t" 2>&1)"
      local mine; mine="$(echo "$rep" | grep -A1 "^FUZZ-VIOLATION property=$ID " | head -n 2)"
      if [[ -n "$mine" ]]; then
        local casejson; casejson="$(echo "$mine" | grep '^FUZZ-CASE ' | head -n1 | cut -c11-)"
        local sig; sig="$(echo "$mine" | head -n1 | grep -oE 'signature=[^ ]+' | cut -d= -f2)"
        local out="$ROOT/replays/$ID-fuzz-$(echo "$casejson" | sha256sum | cut -c1-16).json"
        printf '{"property": "%s", "signature": "%s", "phase": "fuzz:%s", "message": %s, "case": %s}\n' "$ID" "$sig" "$t" "$(echo "$mine" | head -n1 | python3 -c 'import json,sys; print(json.dumps(sys.stdin.read().strip()))')" "$casejson" > "$out"
        echo "]" >> "$stats"
        echo "VIOLATION property=$ID replay=$out"
        echo "  found by libFuzzer target $t; $(echo "$mine" | head -n1 | cut -c1-600)"
        return 1
      elif echo "$rep" | grep -q '^FUZZ-VIOLATION'; then
        echo "note: fuzz target $t found a violation of another property: $(echo "$rep" | grep '^FUZZ-VIOLATION' | head -n1 | cut -c1-300)" >&2
      else
        echo "INFRA fuzz target $t left artifacts that do not reproduce outside libFuzzer (timeout/OOM?): $(echo "$arts" | head -n 3 | tr '\n' ' ')" >&2
        rc=2
      fi
    fi
  done
  echo "]" >> "$stats"
  export VERIF_FUZZ_STATS="$stats"
  return $rc
}
if [[ "$TIER" == "thorough" && "${VERIF_NO_FUZZ:-0}" != "1" ]]; then
  run_fuzz; frc=$?
  if [[ $frc -eq 1 ]]; then exit 1; fi
  if [[ $frc -eq 2 ]]; then FUZZ_INFRA=1; fi
fi
timeout --signal=KILL "$WD" "$HV" check "$ID" "$TIER"
rc=$?
if [[ $rc -eq 137 ]]; then echo "INFRA watchdog: $ID $TIER exceeded ${WD}s" >&2; exit 2; fi
if [[ $rc -ne 0 && $rc -ne 1 ]]; then exit 2; fi
if [[ $rc -eq 0 && "${FUZZ_INFRA:-0}" == "1" ]]; then exit 2; fi
exit $rc
