#!/usr/bin/env python3
"""Regenerates MANIFEST.json from the table below (single source of truth for what is claimed)."""
import json, os, subprocess
ROOT = os.path.dirname(os.path.abspath(__file__))
HOOK_COMMITS = subprocess.run(["git", "-C", "/repo", "log", "--format=%H %s"], capture_output=True, text=True).stdout.splitlines()
hooks = [l.split()[0] for l in HOOK_COMMITS if "verif hook" in l]

# id -> (technique, level text, level note, design ref, engine)
CHECKS = {
 "C01": ("round-trip property-based testing (proptest) over generated sessions and message sequences + exhaustive 36x4 suite/mode sweep",
         "Generated-input search with shrinking over sessions (36 sealing suites x 4 modes), 1..12 messages with edge-biased lengths and mixed allocating/in-place APIs; the 144 suite/mode cells are enumerated on every run. Exploration: inputs are unbounded.",
         "Oracle is the round trip itself (sender vs receiver of the same library) plus the RFC length relation; key pairs come from the independent reference model or the library.",
         "DESIGN.md section 4 C01", "hv"),
 "C02": ("differential property-based testing against an independent RFC 9180 reference model (proptest) + exhaustive suite x mode sweep + RFC/golden vector replay",
         "Generated-input search with shrinking: thousands of sessions over all 48 suites x 4 modes, hpke as sender and as receiver, compared byte-for-byte with an independent reference; the 192 suite/mode cells, 6 verified RFC anchors and 243 golden vectors are enumerated completely on every run. Exploration, not proof: the input space is unbounded.",
         "Trusts sha2, aes-gcm, chacha20poly1305 and the reference's reading of the RFC (pinned at start-up by 6 published vectors and 243 vectors from an independent Python implementation).",
         "DESIGN.md section 4 C02", "hv"),
 "C03": ("differential property-based testing of DeriveKeyPair/Encap/Decap against own HKDF + own curve arithmetic; exhaustive ikm-length sweep; golden retry-path inputs",
         "Generated ikm / key pairs / RNG streams for the 4 KEMs x {plain, auth}; every ikm length 0..=300 and 64 KiB swept; the P-256 DeriveKeyPair retry path is reached through two committed golden inputs found by offline search.",
         "Trusts sha2 and the self-checked arithmetic oracle (n*G=O, RFC 7748 vectors, corpus/curves.json). Retry paths for P-384/P-521 are cryptographically unreachable.",
         "DESIGN.md section 4 C03", "hv"),
 "C04": ("model-based stateful property testing of the sender's sequence counter with a recording AEAD (nonce observed directly) + boundary sweep + long public-API runs + fz_sender libFuzzer target + compile probe (sender context not Clone)",
         "Generated seal histories with hook jumps to every byte-carry boundary and to 2^64-1; the nonce handed to a user-defined recording AEAD is compared absolutely with stored base nonce XOR BE(i); on the real AEADs the ciphertext is compared with AEAD(key_ref, expected nonce); limit, latch and untouched buffer are checked against an abstract model after every step.",
         "2^64 positions are sampled at all carries/both ends/random interior; positions >= 2^24 only through the verif_set_seq hook; reference key schedule trusted for the real-AEAD comparison.",
         "DESIGN.md section 4 C04", "hv"),
 "C05": ("model-based stateful property testing of the receiver: adversarial delivery histories (next/replay/future/aliased position/tamper/short/garbage) x both APIs, from any start position + endurance run of millions of rejected deliveries + fz_receiver libFuzzer target",
         "Generated delivery histories interpreted against the implementation and an abstract position model in lock-step; the concrete counter (hook) is compared with the model after every step; every delivery kind x API x boundary position swept.",
         "Start positions >= 2^24 are reached through the verif_set_seq hook; buffer contents after OpenError are unconstrained (documented).",
         "DESIGN.md section 4 C05", "hv"),
 "C06": ("metamorphic property testing: exhaustive single-bit flips, truncations, extensions and cross-message substitutions of generated messages on all four opening interfaces; long runs of consecutive rejected deliveries on one receiver",
         "Per generated message the whole variant family is enumerated (all bit positions for <=96-byte messages, all tag bits always, every truncation length) and each variant must be rejected with OpenError by open, open_in_place_detached and the two single-shot forms; ~1.8 million open attempts per quick run.",
         "Bit positions of long messages are sampled; most variants reuse one receiver repositioned through the hook, every 16th uses a fresh receiver.",
         "DESIGN.md section 4 C06", "hv"),
 "C07": ("metamorphic property testing: matched baseline + one minimal perturbation of the receiver's setup; exhaustive bit/KDF/AEAD/mode sweeps",
         "Generated baselines over 48 suites x 4 modes with single-component perturbations (bit flips, boundary shifts between adjacent fields, mode swaps with identical data, equal-size AEAD swap, same-DH different-bytes encapsulated keys); the perturbed receiver must open nothing and export different secrets; positive control first.",
         "'No shared key material' is observed through open failures and export inequality.",
         "DESIGN.md section 4 C07", "hv"),
 "C08": ("adversarial property testing: honest sender vs impostors (other pair, public half only, unauthenticated mode, wrong PSK incl. a difference at the end of every PSK length, transcripts forged by the reference model without any sender private key) over 4 KEMs x {Auth, AuthPsk, Psk}",
         "Generated sessions with six impostor kinds including the public-half-only sender (a real API call, the pair is taken unchecked) and one-bit PSK differences; honest sender must be accepted, impostor contexts must share nothing with the receiver.",
         "Acceptance is observed through opens and export equality.",
         "DESIGN.md section 4 C08", "hv"),
 "C11": ("differential stateful property testing of export interleaved with seals/opens/failures vs reference LabeledExpand; exhaustive length sweeps around 255*Nh and 2^16, every exporter-context length, searched all-zero export values",
         "Generated histories on both roles over 48 suites x 4 modes; every export equals the reference value, is repeatable, unaffected by traffic, Ok iff L <= 255*Nh; export-only seal/open must panic; thorough sweeps every L in 0..=66000 per KDF.",
         "Trusts sha2 and the reference key schedule (pinned by anchors and golden vectors).",
         "DESIGN.md section 4 C11", "hv"),
 "C14": ("differential property testing: single-shot vs composed operations with identical scripted randomness, incl. failure paths; recording AEAD compares the AEAD calls of both routes",
         "Generated (suite, mode, inputs, fault) cases; results, errors, bytes drawn from the RNG, in-place buffers and tags must be identical on both routes; allocating vs in-place forms compared for seal and open.",
         "The composed route is the specification.",
         "DESIGN.md section 4 C14", "hv"),
 "C15": ("property testing of the PSK bundle constructor over a 65x65 length grid + differential sessions (incl. the empty bundle in PSK modes) vs the reference key schedule",
         "The constructor rule is checked on all emptiness/length combinations; sessions in all 4 modes x 48 suites are compared with the reference key schedule fed with the bundle's fields, so swapped or ignored fields are visible.",
         "Trusts the reference key schedule (anchor A.1.2 pins the psk/psk_id roles).",
         "DESIGN.md section 4 C15", "hv"),
 "C09": ("property-based testing with constructed SEC1/scalar encodings against a validity predicate computed by the harness's own big-integer curve arithmetic; exhaustive tag-byte/length/corner sweeps",
         "from_bytes must succeed iff the independent predicate holds (length, tag 0x04, x<p, y<p, curve equation; 1<=s<n) with the exact error kind and payload; inputs are built by construction (square roots mod p, x+p, twist and different-b points, every tag byte, every length).",
         "Trusts the self-checked arithmetic oracle (G on curve, n*G=O, constants equal corpus/curves.json).",
         "DESIGN.md section 4 C09", "hv"),
 "C10": ("exhaustive sweep of the 14 small-order X25519 encodings x roles x modes x KDF x AEAD x API + generated near-miss negatives, integer aliases, bit neighbours, keys constructed for degenerate-shaped DH results and special private scalars, decided by the harness's own RFC 7748 ladder",
         "Every small-order encoding in every role must abort setup with EncapError/DecapError on every entry point; generated keys that are not of small order must never be rejected.",
         "Trusts the ladder, self-checked against RFC 7748 vectors at start-up.",
         "DESIGN.md section 4 C10", "hv"),
 "C12": ("round-trip and pair-equality (== iff equal serialisation) property testing of the 16 serialisable types + exhaustive length sweeps for from_bytes and write_exact (panic observed under catch_unwind)",
         "Sizes equal the RFC table, library-produced values and accepted byte strings round-trip losslessly and canonically, wrong lengths give IncorrectInputLength(size, len), write_exact panics iff the buffer length differs.",
         "X25519 private keys are compared up to RFC 7748 clamping, as the property states.",
         "DESIGN.md section 4 C12", "hv"),
 "C13": ("robustness property testing: generated malformed and oversized inputs (incl. every length 0..=2100 of each string input and long runs of rejected deliveries) at every byte-consuming entry point under catch_unwind, with debug assertions and overflow checks compiled in; allowed-error-set oracle",
         "No panic, overflow or abort; each entry point fails only with its allowed error kinds (setup_sender: EncapError, setup_receiver: DecapError, open: OpenError/MessageLimitReached, ...). Every ciphertext length 0..=Nt+17 x 36 suites and every key length swept.",
         "Inputs near usize::MAX cannot be allocated; documented caller-side panics (write_exact, export-only seal/open) excluded.",
         "DESIGN.md section 4 C13", "hv"),
 "C16": ("property testing over suites/modes/roles/operation counts of the memory image of a dropped value (secrets located through the read-only hook accessors; masked and operation-written copies reported) + drop-ledger hook invariant, single-threaded + guard-off release-build probe of freed memory",
         "After drop_in_place the bytes that held the base nonce, exporter secret and shared secret are zero; the ledger shows a wiping drop of the temporary AEAD key buffer per setup and no drop that left non-zero bytes. All 48x4x4 cells swept.",
         "Reads a dropped slot with volatile reads on memory the harness owns; stale copies left by moves in uninitialised union bytes are recorded as an observation, not judged.",
         "DESIGN.md section 4 C16", "hv"),
 "C17": ("enumeration of feature subsets (quick: strength-2 covering set; thorough: all 64) with build, API-presence and differential-transcript oracles driven through cargo",
         "Each subset must compile, expose the in-place API for exactly the enabled KEMs with outputs identical to the full feature set, expose the allocating API iff alloc or std, and pass the crate's unit tests; guard on/off equivalence and hook-API hiding checked once per run. Thorough is exhaustive over the 64 subsets.",
         "One toolchain/platform; kat_test skipped because its vector file is empty in this tree.",
         "DESIGN.md section 4 C17", "hv+cargo"),
 "C18": ("metamorphic property testing over generated multi-session scripts: sequential vs reversed vs interleaved vs cross-thread vs concurrent execution must give identical transcripts; Send+Sync compile probe",
         "Sessions deliberately share components so caches keyed on part of the inputs are hit; contexts are moved between threads and exported from concurrently; a separate probe crate proves Send + Sync for all public types over 48 suites at compile time.",
         "Real-thread interleavings are uncontrolled; order dependence is attacked by harness-owned schedules.",
         "DESIGN.md section 4 C18", "hv+cargo"),
}
ALL = ["C%02d" % i for i in range(1, 19)]
manifest = {
 "version": 1,
 "setup_cmd": "./setup.sh",
 "hooks": {
   "guard": "hpke_verif",
   "enable": "rustc cfg: RUSTFLAGS=\"--cfg hpke_verif\" (set by harness/.cargo/config.toml [build] rustflags; no cargo feature)",
   "baseline_off_cmd": "cd /repo && cargo test --workspace --no-fail-fast --offline",
   "source_commits": hooks,
   "add_only": True,
 },
 "engines": [
   {"name": "hv", "path": "harness/", "serves_properties": sorted(CHECKS.keys()),
    "kind_free_text": "Rust binary: corpus replay + exhaustive sweeps + 16-worker proptest driver with shrinking (proptest for generated cases, structural JSON shrinking for sweep/corpus failures); oracles = independent RFC 9180 reference model, own big-integer curve arithmetic, abstract sequence models"},
   {"name": "fuzz", "path": "fuzz/", "serves_properties": ["C02", "C04", "C05", "C09", "C12", "C13", "C14"],
    "kind_free_text": "cargo-fuzz / libFuzzer targets fz_deser, fz_open, fz_receiver, fz_sender, fz_session (thorough tier, -fork=16): bytes are decoded into the same case types and judged by the same oracles inside the target; artifacts are re-checked outside libFuzzer before they count"},
   {"name": "probes", "path": "probes/", "serves_properties": ["C04", "C16", "C17", "C18"],
    "kind_free_text": "small crates compiled against the tree under test: in-place / allocating / hook-use probes per feature subset (C17), static Send+Sync assertions over all suites (C18), sender context must not be Clone (C04), release-mode guard-off inspection of the freed block of a dropped context (C16)"},
 ],
 "checks": [],
 "not_applicable": [],
 "notes": "All checks: ./check.sh <id> quick|thorough ; replay: ./check.sh <id> --replay <file>. Exit 0 held / 1 violation / 2 infrastructure. VERIF_SEED selects the PRNG seed (default 1).",
}
for pid in ALL:
    if pid in CHECKS:
        tech, text, note, ref, eng = CHECKS[pid]
        manifest["checks"].append({
            "property_id": pid,
            "quick_cmd": "./check.sh %s quick" % pid,
            "thorough_cmd": "./check.sh %s thorough" % pid,
            "evidence_file": "/verif/evidence/%s.json" % pid,
            "replay_cmd_template": "./check.sh %s --replay {path}" % pid,
            "engine": eng,
            "level_claimed": {"category": "exploration", "text": text, "design_ref": ref},
            "level_note": note,
            "technique": tech,
        })
    else:
        manifest["not_applicable"].append({"property_id": pid, "reason": "check not built yet in this session (work in progress; the technique applies, see DESIGN.md section 4)"})
json.dump(manifest, open(os.path.join(ROOT, "MANIFEST.json"), "w"), indent=1)
print("wrote MANIFEST.json with", len(manifest["checks"]), "checks")
