#!/usr/bin/env python3
"""Regenerates MANIFEST.json from the table below (single source of truth for what is claimed)."""
import json, os, subprocess
ROOT = os.path.dirname(os.path.abspath(__file__))
HOOK_COMMITS = subprocess.run(["git", "-C", "/repo", "log", "--format=%H %s"], capture_output=True, text=True).stdout.splitlines()
hooks = [l.split()[0] for l in HOOK_COMMITS if "verif hook" in l]

# id -> (technique, level text, level note, design ref, engine)
CHECKS = {
 "C02": ("differential property-based testing against an independent RFC 9180 reference model (proptest) + exhaustive suite x mode sweep + RFC/golden vector replay",
         "Generated-input search with shrinking: thousands of sessions over all 48 suites x 4 modes, hpke as sender and as receiver, compared byte-for-byte with an independent reference; the 192 suite/mode cells, 6 verified RFC anchors and 243 golden vectors are enumerated completely on every run. Exploration, not proof: the input space is unbounded.",
         "Trusts sha2, aes-gcm, chacha20poly1305 and the reference's reading of the RFC (pinned at start-up by 6 published vectors and 243 vectors from an independent Python implementation).",
         "DESIGN.md section 4 C02", "hv"),
}
ALL = ["C%02d" % i for i in range(1, 19)]
manifest = {
 "version": 1,
 "setup_cmd": "./setup.sh",
 "hooks": {
   "guard": "hpke_verif",
   "enable": "rustc cfg: RUSTFLAGS=\"--cfg hpke_verif\" (set by harness/.cargo/config.toml [build] rustflags; no cargo feature)",
   "baseline_off_cmd": "cd /repo && cargo test --workspace --no-fail-fast --offline",
   "source_commits": hooks,
   "add_only": True,
 },
 "engines": [
   {"name": "hv", "path": "harness/", "serves_properties": sorted(CHECKS.keys()),
    "kind_free_text": "Rust binary: corpus replay + exhaustive sweeps + 16-worker proptest driver with shrinking; oracles = independent RFC 9180 reference model, own big-integer curve arithmetic, abstract sequence models"},
 ],
 "checks": [],
 "not_applicable": [],
 "notes": "All checks: ./check.sh <id> quick|thorough ; replay: ./check.sh <id> --replay <file>. Exit 0 held / 1 violation / 2 infrastructure. VERIF_SEED selects the PRNG seed (default 1).",
}
for pid in ALL:
    if pid in CHECKS:
        tech, text, note, ref, eng = CHECKS[pid]
        manifest["checks"].append({
            "property_id": pid,
            "quick_cmd": "./check.sh %s quick" % pid,
            "thorough_cmd": "./check.sh %s thorough" % pid,
            "evidence_file": "/verif/evidence/%s.json" % pid,
            "replay_cmd_template": "./check.sh %s --replay {path}" % pid,
            "engine": eng,
            "level_claimed": {"category": "exploration", "text": text, "design_ref": ref},
            "level_note": note,
            "technique": tech,
        })
    else:
        manifest["not_applicable"].append({"property_id": pid, "reason": "check not built yet in this session (work in progress; the technique applies, see DESIGN.md section 4)"})
json.dump(manifest, open(os.path.join(ROOT, "MANIFEST.json"), "w"), indent=1)
print("wrote MANIFEST.json with", len(manifest["checks"]), "checks")
