#!/usr/bin/env bash
# MANIFEST.setup_cmd: offline build of the harness from files on disk only. Nothing is fetched and
# nothing outside /verif is written.
set -eu
ROOT="$(cd "$(dirname "${BASH_SOURCE[0]}")" && pwd)"
cd "$ROOT"
export CARGO_NET_OFFLINE=true
mkdir -p target/harness evidence replays
(cd harness && cargo build --release --target-dir "$ROOT/target/harness" 2>&1 | tail -n 3)
"$ROOT/target/harness/release/hv" selfcheck
