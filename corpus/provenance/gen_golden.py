import json, random, sys
sys.path.insert(0, __import__('os').path.dirname(__import__('os').path.abspath(__file__)))
from hpke_ref import *
R = random.Random(9180)
def rb(n): return bytes(R.getrandbits(8) for _ in range(n))
def rlen(choices): return R.choice(choices)
vectors = []
def make(kem_id, kdf_id, aead_id, mode, edge):
    kem = KEMS[kem_id]
    ikmR = rb(kem.nsk if not edge else rlen([0, 1, 17, kem.nsk - 1, kem.nsk + 1, 100]))
    ikmS = rb(kem.nsk if not edge else rlen([0, 5, 64, 131]))
    ikmE = rb(kem.nsk)                      # exactly the Nsk bytes the RNG must supply
    info = rb(rlen([0, 1, 20, 33]) if not edge else rlen([0, 64, 65, 255]))
    psk = rb(rlen([32, 1, 48])) ; psk_id = rb(rlen([1, 8, 22]))
    skR, pkR = kem.derive_keypair(ikmR)
    v = dict(kem_id=kem_id, kdf_id=kdf_id, aead_id=aead_id, mode=mode, ikmR=ikmR.hex(), ikmE=ikmE.hex(), info=info.hex(),
             skRm=skR.hex(), pkRm=pkR.hex())
    skS = pkS = None
    if mode in (2, 3):
        skS, pkS = kem.derive_keypair(ikmS); v.update(ikmS=ikmS.hex(), skSm=skS.hex(), pkSm=pkS.hex())
    if mode in (1, 3): v.update(psk=psk.hex(), psk_id=psk_id.hex())
    else: psk = psk_id = b''
    enc, ctx = setup_sender(kem_id, kdf_id, aead_id, mode, pkR, info, ikmE, psk, psk_id, skS)
    rctx = setup_receiver(kem_id, kdf_id, aead_id, mode, enc, skR, info, psk, psk_id, pkS)
    assert rctx.key == ctx.key and rctx.base_nonce == ctx.base_nonce and rctx.exporter_secret == ctx.exporter_secret
    v.update(enc=enc.hex(), shared_secret=ctx.dbg['shared_secret'], key_schedule_context=ctx.dbg['key_schedule_context'],
             secret=ctx.dbg['secret'], key=ctx.key.hex(), base_nonce=ctx.base_nonce.hex(), exporter_secret=ctx.exporter_secret.hex())
    encs = []
    if aead_id != 0xffff:
        for i in range(3):
            aad = rb(rlen([0, 7, 16, 31])); pt = rb(rlen([0, 1, 15, 16, 17, 64, 65]) if not edge else rlen([0, 255, 256, 257]))
            nonce = ctx.nonce(); ct = ctx.seal(aad, pt)
            encs.append(dict(aad=aad.hex(), pt=pt.hex(), nonce=nonce.hex(), ct=ct.hex()))
    v['encryptions'] = encs
    nh = NH[kdf_id]
    v['exports'] = [dict(exporter_context=c.hex(), L=L, value=ctx.export(c, L).hex())
                    for c, L in [(b'', 32), (rb(9), 1), (rb(40), nh + 1), (b'\x00', 0)]]
    return v
for kem_id in (0x20, 0x10, 0x11, 0x12):
    for kdf_id in (1, 2, 3):
        for aead_id in (1, 2, 3, 0xffff):
            for mode in (0, 1, 2, 3):
                vectors.append(make(kem_id, kdf_id, aead_id, mode, False))
            vectors.append(make(kem_id, kdf_id, aead_id, R.choice([0, 1, 2, 3]), True))
# boundary export length once per KDF (255*Nh)
for kdf_id in (1, 2, 3):
    v = make(0x20, kdf_id, 0xffff, 0, False)
    kem = KEMS[0x20]
    _, ctx = setup_sender(0x20, kdf_id, 0xffff, 0, bytes.fromhex(v['pkRm']), bytes.fromhex(v['info']), bytes.fromhex(v['ikmE']))
    L = 255 * NH[kdf_id]
    v['exports'].append(dict(exporter_context='6d6178', L=L, value=ctx.export(b'max', L).hex()))
    vectors.append(v)
json.dump(dict(_comment="Golden RFC 9180 vectors produced by an independent pure-Python implementation (hashlib SHA-2, Python-int curve arithmetic, own AES-GCM and ChaCha20-Poly1305) that first reproduced the six verified RFC Appendix A anchors, the RFC 5903 key pairs and RFC 7748. Inputs are pseudo-random (seed 9180). One vector per suite x mode (192), one edge-length vector per suite (48), three max-length export vectors. ikmE is exactly the Nsk bytes the sender's RNG must supply.",
               vectors=vectors), open(__import__('os').path.join(__import__('os').path.dirname(__import__('os').path.abspath(__file__)), '..', 'golden_rfc9180.json'), 'w'), indent=0)
print(len(vectors), 'vectors')
