#!/usr/bin/env python3
"""Pure-Python RFC 9180 (HPKE) reference: hashlib SHA-2 + own HMAC/HKDF use, Python-int curves,
own AES-GCM and ChaCha20-Poly1305. Written from the RFC pseudocode; shares nothing with rust-hpke."""
import hashlib, hmac, struct

# ----------------------------------------------------------------------------- HKDF
HASH = {1: 'sha256', 2: 'sha384', 3: 'sha512'}
NH = {1: 32, 2: 48, 3: 64}
def hkdf_extract(h, salt, ikm):
    if len(salt) == 0: salt = b'\x00' * hashlib.new(h).digest_size
    return hmac.new(salt, ikm, h).digest()
def hkdf_expand(h, prk, info, L):
    n = hashlib.new(h).digest_size
    if L > 255 * n: raise ValueError('KdfOutputTooLong')
    t = b''; okm = b''; i = 1
    while len(okm) < L:
        t = hmac.new(prk, t + info + bytes([i]), h).digest(); okm += t; i += 1
    return okm[:L]
def i2osp(n, l): return n.to_bytes(l, 'big')
def labeled_extract(h, suite_id, salt, label, ikm):
    return hkdf_extract(h, salt, b'HPKE-v1' + suite_id + label + ikm)
def labeled_expand(h, suite_id, prk, label, info, L):
    if L > 65535: raise ValueError('KdfOutputTooLong')
    return hkdf_expand(h, prk, i2osp(L, 2) + b'HPKE-v1' + suite_id + label + info, L)

# ----------------------------------------------------------------------------- curves
class Curve:
    def __init__(s, name, p, b, gx, gy, n, k):
        s.name, s.p, s.a, s.b, s.g, s.n, s.k = name, p, p - 3, b, (gx, gy), n, k
    def on_curve(s, P):
        x, y = P; return (y * y - (x * x * x + s.a * x + s.b)) % s.p == 0
    def add(s, P, Q):
        if P is None: return Q
        if Q is None: return P
        p = s.p
        if P[0] == Q[0]:
            if (P[1] + Q[1]) % p == 0: return None
            l = (3 * P[0] * P[0] + s.a) * pow(2 * P[1], -1, p) % p
        else:
            l = (Q[1] - P[1]) * pow(Q[0] - P[0], -1, p) % p
        x = (l * l - P[0] - Q[0]) % p
        return (x, (l * (P[0] - x) - P[1]) % p)
    def mul(s, k, P):
        R = None
        for bit in bin(k)[2:]:
            R = s.add(R, R)
            if bit == '1': R = s.add(R, P)
        return R
    def ser(s, P): return b'\x04' + P[0].to_bytes(s.k, 'big') + P[1].to_bytes(s.k, 'big')
    def deser(s, b):
        if len(b) != 1 + 2 * s.k or b[0] != 4: raise ValueError('bad point encoding')
        x = int.from_bytes(b[1:1 + s.k], 'big'); y = int.from_bytes(b[1 + s.k:], 'big')
        if x >= s.p or y >= s.p or not s.on_curve((x, y)): raise ValueError('invalid point')
        return (x, y)

P256 = Curve('P-256', 0xffffffff00000001000000000000000000000000ffffffffffffffffffffffff,
    0x5ac635d8aa3a93e7b3ebbd55769886bc651d06b0cc53b0f63bce3c3e27d2604b,
    0x6b17d1f2e12c4247f8bce6e563a440f277037d812deb33a0f4a13945d898c296,
    0x4fe342e2fe1a7f9b8ee7eb4a7c0f9e162bce33576b315ececbb6406837bf51f5,
    0xffffffff00000000ffffffffffffffffbce6faada7179e84f3b9cac2fc632551, 32)
P384 = Curve('P-384', 2**384 - 2**128 - 2**96 + 2**32 - 1,
    0xb3312fa7e23ee7e4988e056be3f82d19181d9c6efe8141120314088f5013875ac656398d8a2ed19d2a85c8edd3ec2aef,
    0xaa87ca22be8b05378eb1c71ef320ad746e1d3b628ba79b9859f741e082542a385502f25dbf55296c3a545e3872760ab7,
    0x3617de4a96262c6f5d9e98bf9292dc29f8f41dbd289a147ce9da3113b5f0b8c00a60b1ce1d7e819d7a431d7c90ea0e5f,
    0xffffffffffffffffffffffffffffffffffffffffffffffffc7634d81f4372ddf581a0db248b0a77aecec196accc52973, 48)
P521 = Curve('P-521', 2**521 - 1,
    0x0051953eb9618e1c9a1f929a21a0b68540eea2da725b99b315f3b8b489918ef109e156193951ec7e937b1652c0bd3bb1bf073573df883d2c34f1ef451fd46b503f00,
    0x00c6858e06b70404e9cd9e3ecb662395b4429c648139053fb521f828af606b4d3dbaa14b5e77efe75928fe1dc127a2ffa8de3348b3c1856a429bf97e7e31c2e5bd66,
    0x011839296a789a3bc0045c8a5fb42c7d1bd998f54449579b446817afbd17273e662c97ee72995ef42640c550b9013fad0761353c7086a272c24088be94769fd16650,
    int('1' + 'f' * 65 + 'a51868783bf2f966b7fcc0148f709a5d03bb5c9b8899c47aebb6fb71e91386409', 16), 66)

# X25519 (RFC 7748)
P25519 = 2**255 - 19
def x25519(k: bytes, u: bytes) -> bytes:
    kk = bytearray(k); kk[0] &= 248; kk[31] &= 127; kk[31] |= 64
    kn = int.from_bytes(kk, 'little')
    uu = bytearray(u); uu[31] &= 127
    x1 = int.from_bytes(uu, 'little') % P25519
    x2, z2, x3, z3, swap = 1, 0, x1, 1, 0
    for t in range(254, -1, -1):
        kt = (kn >> t) & 1
        swap ^= kt
        if swap: x2, x3, z2, z3 = x3, x2, z3, z2
        swap = kt
        A = (x2 + z2) % P25519; AA = A * A % P25519
        B = (x2 - z2) % P25519; BB = B * B % P25519
        E = (AA - BB) % P25519
        C = (x3 + z3) % P25519; D = (x3 - z3) % P25519
        DA = D * A % P25519; CB = C * B % P25519
        x3 = (DA + CB) ** 2 % P25519
        z3 = x1 * (DA - CB) ** 2 % P25519
        x2 = AA * BB % P25519
        z2 = E * (AA + 121665 * E) % P25519
    if swap: x2, x3, z2, z3 = x3, x2, z3, z2
    return (x2 * pow(z2, P25519 - 2, P25519) % P25519).to_bytes(32, 'little')
BASE9 = (9).to_bytes(32, 'little')

# ----------------------------------------------------------------------------- KEMs
class Kem:
    def __init__(s, kem_id, kdf_id, curve, nsecret, npk, nsk, bitmask):
        s.id, s.kdf, s.curve, s.nsecret, s.npk, s.nenc, s.nsk, s.bitmask = kem_id, kdf_id, curve, nsecret, npk, npk, nsk, bitmask
        s.suite = b'KEM' + i2osp(kem_id, 2); s.h = HASH[kdf_id]
    def derive_keypair(s, ikm):
        prk = labeled_extract(s.h, s.suite, b'', b'dkp_prk', ikm)
        if s.curve is None:
            sk = labeled_expand(s.h, s.suite, prk, b'sk', b'', 32)
            return sk, x25519(sk, BASE9)
        x = 0; counter = 0
        while x == 0 or x >= s.curve.n:
            if counter > 255: raise ValueError('DeriveKeyPairError')
            b = bytearray(labeled_expand(s.h, s.suite, prk, b'candidate', i2osp(counter, 1), s.nsk))
            b[0] &= s.bitmask
            x = int.from_bytes(b, 'big'); counter += 1
        sk = x.to_bytes(s.nsk, 'big')
        return sk, s.pk(sk)
    def pk(s, sk):
        if s.curve is None: return x25519(sk, BASE9)
        return s.curve.ser(s.curve.mul(int.from_bytes(sk, 'big'), s.curve.g))
    def dh(s, sk, pk):
        if s.curve is None:
            r = x25519(sk, pk)
            if r == b'\x00' * 32: raise ValueError('zero DH')
            return r
        P = s.curve.deser(pk)
        R = s.curve.mul(int.from_bytes(sk, 'big'), P)
        if R is None: raise ValueError('infinity')
        return R[0].to_bytes(s.curve.k, 'big')
    def extract_and_expand(s, dh, kem_context):
        eae = labeled_extract(s.h, s.suite, b'', b'eae_prk', dh)
        return labeled_expand(s.h, s.suite, eae, b'shared_secret', kem_context, s.nsecret)
    def encap(s, pkR, ikmE, skS=None):
        skE, pkE = s.derive_keypair(ikmE)
        dh = s.dh(skE, pkR); enc = pkE; ctx = enc + pkR
        if skS is not None:
            dh += s.dh(skS, pkR); ctx += s.pk(skS)
        return s.extract_and_expand(dh, ctx), enc
    def decap(s, enc, skR, pkS=None):
        dh = s.dh(skR, enc); ctx = enc + s.pk(skR)
        if pkS is not None:
            dh += s.dh(skR, pkS); ctx += pkS
        return s.extract_and_expand(dh, ctx)

KEMS = {0x0020: Kem(0x0020, 1, None, 32, 32, 32, 0xff), 0x0010: Kem(0x0010, 1, P256, 32, 65, 32, 0xff),
        0x0011: Kem(0x0011, 2, P384, 48, 97, 48, 0xff), 0x0012: Kem(0x0012, 3, P521, 64, 133, 66, 0x01)}

# ----------------------------------------------------------------------------- AEADs
def _rotl(v, c): return ((v << c) & 0xffffffff) | (v >> (32 - c))
def _qr(s, a, b, c, d):
    s[a] = (s[a] + s[b]) & 0xffffffff; s[d] = _rotl(s[d] ^ s[a], 16)
    s[c] = (s[c] + s[d]) & 0xffffffff; s[b] = _rotl(s[b] ^ s[c], 12)
    s[a] = (s[a] + s[b]) & 0xffffffff; s[d] = _rotl(s[d] ^ s[a], 8)
    s[c] = (s[c] + s[d]) & 0xffffffff; s[b] = _rotl(s[b] ^ s[c], 7)
def chacha20_block(key, counter, nonce):
    st = [0x61707865, 0x3320646e, 0x79622d32, 0x6b206574] + list(struct.unpack('<8I', key)) + [counter] + list(struct.unpack('<3I', nonce))
    w = st[:]
    for _ in range(10):
        _qr(w, 0, 4, 8, 12); _qr(w, 1, 5, 9, 13); _qr(w, 2, 6, 10, 14); _qr(w, 3, 7, 11, 15)
        _qr(w, 0, 5, 10, 15); _qr(w, 1, 6, 11, 12); _qr(w, 2, 7, 8, 13); _qr(w, 3, 4, 9, 14)
    return struct.pack('<16I', *[(w[i] + st[i]) & 0xffffffff for i in range(16)])
def chacha20_xor(key, counter, nonce, data):
    out = bytearray()
    for i in range(0, len(data), 64):
        ks = chacha20_block(key, counter + i // 64, nonce)
        out += bytes(a ^ b for a, b in zip(data[i:i + 64], ks))
    return bytes(out)
def poly1305(key, msg):
    r = int.from_bytes(key[:16], 'little') & 0x0ffffffc0ffffffc0ffffffc0fffffff
    s = int.from_bytes(key[16:], 'little'); p = (1 << 130) - 5; acc = 0
    for i in range(0, len(msg), 16):
        blk = msg[i:i + 16]
        acc = (acc + int.from_bytes(blk + b'\x01', 'little')) * r % p
    return ((acc + s) & ((1 << 128) - 1)).to_bytes(16, 'little')
def _pad16(b): return b'\x00' * ((16 - len(b) % 16) % 16)
def chacha20poly1305_seal(key, nonce, aad, pt):
    otk = chacha20_block(key, 0, nonce)[:32]
    ct = chacha20_xor(key, 1, nonce, pt)
    mac = poly1305(otk, aad + _pad16(aad) + ct + _pad16(ct) + struct.pack('<QQ', len(aad), len(ct)))
    return ct + mac

def _xtime(a): return ((a << 1) ^ 0x1b) & 0xff if a & 0x80 else a << 1
def _gmul(a, b):
    r = 0
    while b:
        if b & 1: r ^= a
        a = _xtime(a); b >>= 1
    return r
def _make_sbox():
    sbox = [0] * 256
    for x in range(256):
        inv = 0
        if x:
            for y in range(1, 256):
                if _gmul(x, y) == 1: inv = y; break
        s = inv
        for _ in range(4):
            inv = ((inv << 1) | (inv >> 7)) & 0xff; s ^= inv
        sbox[x] = s ^ 0x63
    return sbox
SBOX = _make_sbox()
def aes_expand(key):
    nk = len(key) // 4; nr = nk + 6
    w = [list(key[4 * i:4 * i + 4]) for i in range(nk)]
    rcon = 1
    for i in range(nk, 4 * (nr + 1)):
        t = w[i - 1][:]
        if i % nk == 0:
            t = t[1:] + t[:1]; t = [SBOX[b] for b in t]; t[0] ^= rcon; rcon = _xtime(rcon)
        elif nk > 6 and i % nk == 4:
            t = [SBOX[b] for b in t]
        w.append([a ^ b for a, b in zip(w[i - nk], t)])
    return [sum(w[4 * r:4 * r + 4], []) for r in range(nr + 1)]
def aes_encrypt_block(rk, blk):
    s = [a ^ b for a, b in zip(blk, rk[0])]
    for r in range(1, len(rk)):
        s = [SBOX[b] for b in s]
        s = [s[(i + 4 * (i % 4)) % 16] for i in range(16)]  # ShiftRows (column-major state)
        if r != len(rk) - 1:
            t = []
            for c in range(4):
                a = s[4 * c:4 * c + 4]
                t += [_gmul(a[0], 2) ^ _gmul(a[1], 3) ^ a[2] ^ a[3], a[0] ^ _gmul(a[1], 2) ^ _gmul(a[2], 3) ^ a[3],
                      a[0] ^ a[1] ^ _gmul(a[2], 2) ^ _gmul(a[3], 3), _gmul(a[0], 3) ^ a[1] ^ a[2] ^ _gmul(a[3], 2)]
            s = t
        s = [a ^ b for a, b in zip(s, rk[r])]
    return bytes(s)
def _ghash_mul(x, y):
    R = 0xe1 << 120; z = 0; v = y
    for i in range(127, -1, -1):
        if (x >> i) & 1: z ^= v
        v = (v >> 1) ^ R if v & 1 else v >> 1
    return z
def aes_gcm_seal(key, nonce, aad, pt):
    rk = aes_expand(key)
    H = int.from_bytes(aes_encrypt_block(rk, b'\x00' * 16), 'big')
    j0 = nonce + b'\x00\x00\x00\x01'
    def ctr(i): return nonce + struct.pack('>I', i)
    ct = bytearray()
    for i in range(0, len(pt), 16):
        ks = aes_encrypt_block(rk, ctr(2 + i // 16))
        ct += bytes(a ^ b for a, b in zip(pt[i:i + 16], ks))
    ct = bytes(ct)
    data = aad + _pad16(aad) + ct + _pad16(ct) + struct.pack('>QQ', 8 * len(aad), 8 * len(ct))
    y = 0
    for i in range(0, len(data), 16):
        y = _ghash_mul(y ^ int.from_bytes(data[i:i + 16], 'big'), H)
    tag = bytes(a ^ b for a, b in zip(y.to_bytes(16, 'big'), aes_encrypt_block(rk, j0)))
    return ct + tag
AEADS = {1: (16, 12, 16, aes_gcm_seal), 2: (32, 12, 16, aes_gcm_seal), 3: (32, 12, 16, chacha20poly1305_seal), 0xffff: (0, 0, 0, None)}

# ----------------------------------------------------------------------------- key schedule / context
class Context:
    def __init__(s, kem_id, kdf_id, aead_id, key, base_nonce, exporter_secret, dbg):
        s.kdf_id, s.aead_id, s.key, s.base_nonce, s.exporter_secret, s.seq, s.dbg = kdf_id, aead_id, key, base_nonce, exporter_secret, 0, dbg
        s.suite = b'HPKE' + i2osp(kem_id, 2) + i2osp(kdf_id, 2) + i2osp(aead_id, 2)
    def nonce(s):
        return bytes(a ^ b for a, b in zip(s.base_nonce, i2osp(s.seq, len(s.base_nonce))))
    def seal(s, aad, pt):
        if s.seq >= (1 << 64) - 1 + 1: raise ValueError('MessageLimitReached')
        ct = AEADS[s.aead_id][3](s.key, s.nonce(), aad, pt); s.seq += 1; return ct
    def export(s, ctx, L):
        return labeled_expand(HASH[s.kdf_id], s.suite, s.exporter_secret, b'sec', ctx, L)

def key_schedule(kem_id, kdf_id, aead_id, mode, shared_secret, info, psk=b'', psk_id=b'', verify_psk=True):
    if verify_psk:
        got_psk = psk != b''; got_id = psk_id != b''
        if got_psk != got_id: raise ValueError('Inconsistent PSK inputs')
        if got_psk and mode in (0, 2): raise ValueError('PSK input provided when not needed')
        if not got_psk and mode in (1, 3): raise ValueError('Missing required PSK input')
    h = HASH[kdf_id]; suite = b'HPKE' + i2osp(kem_id, 2) + i2osp(kdf_id, 2) + i2osp(aead_id, 2)
    psk_id_hash = labeled_extract(h, suite, b'', b'psk_id_hash', psk_id)
    info_hash = labeled_extract(h, suite, b'', b'info_hash', info)
    ksc = bytes([mode]) + psk_id_hash + info_hash
    secret = labeled_extract(h, suite, shared_secret, b'secret', psk)
    nk, nn, nt, _ = AEADS[aead_id]
    key = labeled_expand(h, suite, secret, b'key', ksc, nk)
    base_nonce = labeled_expand(h, suite, secret, b'base_nonce', ksc, nn)
    exp = labeled_expand(h, suite, secret, b'exp', ksc, NH[kdf_id])
    dbg = dict(key_schedule_context=ksc.hex(), secret=secret.hex())
    return Context(kem_id, kdf_id, aead_id, key, base_nonce, exp, dbg)

def setup_sender(kem_id, kdf_id, aead_id, mode, pkR, info, ikmE, psk=b'', psk_id=b'', skS=None, verify_psk=True):
    kem = KEMS[kem_id]
    ss, enc = kem.encap(pkR, ikmE, skS if mode in (2, 3) else None)
    ctx = key_schedule(kem_id, kdf_id, aead_id, mode, ss, info, psk, psk_id, verify_psk)
    ctx.dbg['shared_secret'] = ss.hex()
    return enc, ctx
def setup_receiver(kem_id, kdf_id, aead_id, mode, enc, skR, info, psk=b'', psk_id=b'', pkS=None, verify_psk=True):
    kem = KEMS[kem_id]
    ss = kem.decap(enc, skR, pkS if mode in (2, 3) else None)
    return key_schedule(kem_id, kdf_id, aead_id, mode, ss, info, psk, psk_id, verify_psk)
