//! Verification harness for rozbb/rust-hpke: property-based testing and fuzzing of the 18
//! properties in /verif/properties.jsonl. See /verif/DESIGN.md.

pub mod corpus;
pub mod engine;
pub mod fuzzdec;
pub mod gen;
pub mod props;
pub mod refmodel;
pub mod suite;
pub mod util;
