//! The suite table: hpke encodes the ciphersuite in types; this module turns the 48 suites (plus
//! rows using the recording `SpyAead`) into data behind one object-safe trait. Keys cross the
//! boundary as bytes (the way real callers hold them), randomness as a `ScriptRng`.
//!
//! Nothing here requires `Send`/`Sync` of hpke's types (the static proof lives in probes/c18).

use crate::refmodel::hpke_ref::{AeadId, KdfId, KemId, Suite};
use crate::util::Bytes;
use hpke::aead::{Aead, AeadCtxR, AeadCtxS, AeadTag};
use hpke::kdf::Kdf as KdfTrait;
use hpke::kem::Kem as KemTrait;
use hpke::{Deserializable, HpkeError, OpModeR, OpModeS, PskBundle, Serializable};
use rand_core::{CryptoRng, RngCore};
use serde::{Deserialize, Serialize};
use std::cell::RefCell;
use std::marker::PhantomData;
use std::mem::MaybeUninit;

// ------------------------------------------------------------------------------------------------
// Scripted randomness

/// Serves a fixed byte stream, records how much was drawn and in how many calls. When the stream
/// runs out it continues with a fixed pattern and flags the over-draw.
#[derive(Clone, Debug)]
pub struct ScriptRng {
    stream: Vec<u8>,
    pub pos: usize,
    pub calls: usize,
    pub overdraw: bool,
}

impl ScriptRng {
    pub fn new(stream: &[u8]) -> ScriptRng {
        ScriptRng { stream: stream.to_vec(), pos: 0, calls: 0, overdraw: false }
    }
    pub fn drawn(&self) -> usize {
        self.pos
    }
    fn next_byte(&mut self) -> u8 {
        let b = if self.pos < self.stream.len() {
            self.stream[self.pos]
        } else {
            self.overdraw = true;
            0xa5u8 ^ (self.pos as u8).wrapping_mul(0x3b)
        };
        self.pos += 1;
        b
    }
    /// The bytes a consumer that drew `n` bytes from a fresh copy would have seen
    pub fn peek(stream: &[u8], n: usize) -> Vec<u8> {
        let mut r = ScriptRng::new(stream);
        (0..n).map(|_| r.next_byte()).collect()
    }
}

impl RngCore for ScriptRng {
    fn next_u32(&mut self) -> u32 {
        let mut b = [0u8; 4];
        self.fill_bytes(&mut b);
        u32::from_le_bytes(b)
    }
    fn next_u64(&mut self) -> u64 {
        let mut b = [0u8; 8];
        self.fill_bytes(&mut b);
        u64::from_le_bytes(b)
    }
    fn fill_bytes(&mut self, dst: &mut [u8]) {
        self.calls += 1;
        for d in dst.iter_mut() {
            *d = self.next_byte();
        }
    }
}
impl CryptoRng for ScriptRng {}

// ------------------------------------------------------------------------------------------------
// SpyAead: a user-defined `hpke::aead::Aead` (built exactly the way ExportOnlyAead is) that wraps a
// real ChaCha20Poly1305 and records key, nonce, aad and length of every call in a thread-local log.

#[derive(Clone, Debug, PartialEq, Eq)]
pub struct SpyRec {
    pub enc: bool,
    pub key: Vec<u8>,
    pub nonce: Vec<u8>,
    pub aad: Vec<u8>,
    pub len: usize,
    pub ok: bool,
}

thread_local! {
    static SPY_LOG: RefCell<Vec<SpyRec>> = const { RefCell::new(Vec::new()) };
}

pub fn spy_take() -> Vec<SpyRec> {
    SPY_LOG.with(|l| std::mem::take(&mut *l.borrow_mut()))
}
pub fn spy_clear() {
    SPY_LOG.with(|l| l.borrow_mut().clear());
}

#[derive(Clone)]
pub struct SpyImpl {
    inner: chacha20poly1305::ChaCha20Poly1305,
    key: [u8; 32],
}

impl aead::AeadCore for SpyImpl {
    type NonceSize = generic_array::typenum::U12;
    type TagSize = generic_array::typenum::U16;
    type CiphertextOverhead = generic_array::typenum::U16;
}
impl aead::KeySizeUser for SpyImpl {
    type KeySize = generic_array::typenum::U32;
}
impl aead::KeyInit for SpyImpl {
    fn new(key: &aead::Key<Self>) -> Self {
        let mut k = [0u8; 32];
        k.copy_from_slice(key);
        SpyImpl { inner: <chacha20poly1305::ChaCha20Poly1305 as aead::KeyInit>::new(key), key: k }
    }
}
impl aead::AeadInPlace for SpyImpl {
    fn encrypt_in_place_detached(
        &self,
        nonce: &aead::Nonce<Self>,
        aad: &[u8],
        buf: &mut [u8],
    ) -> Result<aead::Tag<Self>, aead::Error> {
        let r = self.inner.encrypt_in_place_detached(nonce, aad, buf);
        SPY_LOG.with(|l| {
            l.borrow_mut().push(SpyRec {
                enc: true,
                key: self.key.to_vec(),
                nonce: nonce.to_vec(),
                aad: aad.to_vec(),
                len: buf.len(),
                ok: r.is_ok(),
            })
        });
        r
    }
    fn decrypt_in_place_detached(
        &self,
        nonce: &aead::Nonce<Self>,
        aad: &[u8],
        buf: &mut [u8],
        tag: &aead::Tag<Self>,
    ) -> Result<(), aead::Error> {
        let r = self.inner.decrypt_in_place_detached(nonce, aad, buf, tag);
        SPY_LOG.with(|l| {
            l.borrow_mut().push(SpyRec {
                enc: false,
                key: self.key.to_vec(),
                nonce: nonce.to_vec(),
                aad: aad.to_vec(),
                len: buf.len(),
                ok: r.is_ok(),
            })
        });
        r
    }
}

pub struct SpyAead;
impl Aead for SpyAead {
    type AeadImpl = SpyImpl;
    const AEAD_ID: u16 = 0x0003;
}

// ------------------------------------------------------------------------------------------------
// Byte-level view of modes and failures

#[derive(Clone, Debug, PartialEq, Eq, Hash, Serialize, Deserialize, Default)]
pub struct ModeS {
    pub mode: u8,
    pub psk: Bytes,
    pub psk_id: Bytes,
    pub sk_s: Bytes,
    pub pk_s: Bytes,
}

#[derive(Clone, Debug, PartialEq, Eq, Hash, Serialize, Deserialize, Default)]
pub struct ModeR {
    pub mode: u8,
    pub psk: Bytes,
    pub psk_id: Bytes,
    pub pk_s: Bytes,
}

impl ModeS {
    pub fn base() -> ModeS {
        ModeS::default()
    }
    pub fn receiver(&self) -> ModeR {
        ModeR { mode: self.mode, psk: self.psk.clone(), psk_id: self.psk_id.clone(), pk_s: self.pk_s.clone() }
    }
}

/// Why a call did not produce a value
#[derive(Clone, Debug, PartialEq, Eq)]
pub enum Fail {
    /// the library call under examination returned this error
    Hpke(HpkeError),
    /// a preparatory step (parsing a key, building a PSK bundle) failed; other properties own it
    Construct(&'static str, HpkeError),
}

impl Fail {
    pub fn hpke(&self) -> Option<HpkeError> {
        match self {
            Fail::Hpke(e) => Some(*e),
            _ => None,
        }
    }
}

fn parse<T: Deserializable>(step: &'static str, b: &[u8]) -> Result<T, Fail> {
    T::from_bytes(b).map_err(|e| Fail::Construct(step, e))
}

fn build_mode_s<'a, Kem: KemTrait>(m: &'a ModeS) -> Result<OpModeS<'a, Kem>, Fail> {
    let bundle = |m: &'a ModeS| PskBundle::new(&m.psk, &m.psk_id).map_err(|e| Fail::Construct("psk_bundle", e));
    let pair = |m: &ModeS| -> Result<(Kem::PrivateKey, Kem::PublicKey), Fail> {
        Ok((parse("sk_s", &m.sk_s)?, parse("pk_s", &m.pk_s)?))
    };
    Ok(match m.mode {
        0 => OpModeS::Base,
        1 => OpModeS::Psk(bundle(m)?),
        2 => OpModeS::Auth(pair(m)?),
        3 => OpModeS::AuthPsk(pair(m)?, bundle(m)?),
        _ => panic!("harness bug: mode {}", m.mode),
    })
}

fn build_mode_r<'a, Kem: KemTrait>(m: &'a ModeR) -> Result<OpModeR<'a, Kem>, Fail> {
    let bundle = |m: &'a ModeR| PskBundle::new(&m.psk, &m.psk_id).map_err(|e| Fail::Construct("psk_bundle", e));
    Ok(match m.mode {
        0 => OpModeR::Base,
        1 => OpModeR::Psk(bundle(m)?),
        2 => OpModeR::Auth(parse("pk_s", &m.pk_s)?),
        3 => OpModeR::AuthPsk(parse("pk_s", &m.pk_s)?, bundle(m)?),
        _ => panic!("harness bug: mode {}", m.mode),
    })
}

// ------------------------------------------------------------------------------------------------
// Object-safe views

pub trait DynSender {
    fn seal(&mut self, pt: &[u8], aad: &[u8]) -> Result<Vec<u8>, HpkeError>;
    /// in-place detached seal; returns the tag bytes
    fn seal_in_place(&mut self, buf: &mut [u8], aad: &[u8]) -> Result<Vec<u8>, HpkeError>;
    fn export(&self, ctx: &[u8], len: usize) -> Result<Vec<u8>, HpkeError>;
    fn seq_state(&self) -> (u64, bool);
    fn set_seq(&mut self, seq: u64);
    fn base_nonce(&self) -> Vec<u8>;
    fn exporter_secret(&self) -> Vec<u8>;
}

pub trait DynReceiver {
    fn open(&mut self, ct: &[u8], aad: &[u8]) -> Result<Vec<u8>, HpkeError>;
    /// in-place detached open with the tag given as bytes (a wrong-length tag fails at
    /// `AeadTag::from_bytes`, reported as `Fail::Construct("tag", ..)`)
    fn open_in_place(&mut self, buf: &mut [u8], aad: &[u8], tag: &[u8]) -> Result<(), Fail>;
    fn export(&self, ctx: &[u8], len: usize) -> Result<Vec<u8>, HpkeError>;
    fn seq_state(&self) -> (u64, bool);
    fn set_seq(&mut self, seq: u64);
    fn base_nonce(&self) -> Vec<u8>;
    fn exporter_secret(&self) -> Vec<u8>;
}

struct Snd<A: Aead, Kdf: KdfTrait, Kem: KemTrait>(AeadCtxS<A, Kdf, Kem>);
struct Rcv<A: Aead, Kdf: KdfTrait, Kem: KemTrait>(AeadCtxR<A, Kdf, Kem>);

impl<A: Aead, Kdf: KdfTrait, Kem: KemTrait> DynSender for Snd<A, Kdf, Kem> {
    fn seal(&mut self, pt: &[u8], aad: &[u8]) -> Result<Vec<u8>, HpkeError> {
        self.0.seal(pt, aad)
    }
    fn seal_in_place(&mut self, buf: &mut [u8], aad: &[u8]) -> Result<Vec<u8>, HpkeError> {
        self.0.seal_in_place_detached(buf, aad).map(|t| t.to_bytes().to_vec())
    }
    fn export(&self, ctx: &[u8], len: usize) -> Result<Vec<u8>, HpkeError> {
        let mut out = vec![0u8; len];
        self.0.export(ctx, &mut out).map(|_| out)
    }
    fn seq_state(&self) -> (u64, bool) {
        self.0.verif_seq_state()
    }
    fn set_seq(&mut self, seq: u64) {
        self.0.verif_set_seq(seq)
    }
    fn base_nonce(&self) -> Vec<u8> {
        self.0.verif_base_nonce().to_vec()
    }
    fn exporter_secret(&self) -> Vec<u8> {
        self.0.verif_exporter_secret().to_vec()
    }
}

impl<A: Aead, Kdf: KdfTrait, Kem: KemTrait> DynReceiver for Rcv<A, Kdf, Kem> {
    fn open(&mut self, ct: &[u8], aad: &[u8]) -> Result<Vec<u8>, HpkeError> {
        self.0.open(ct, aad)
    }
    fn open_in_place(&mut self, buf: &mut [u8], aad: &[u8], tag: &[u8]) -> Result<(), Fail> {
        let t: AeadTag<A> = parse("tag", tag)?;
        self.0.open_in_place_detached(buf, aad, &t).map_err(Fail::Hpke)
    }
    fn export(&self, ctx: &[u8], len: usize) -> Result<Vec<u8>, HpkeError> {
        let mut out = vec![0u8; len];
        self.0.export(ctx, &mut out).map(|_| out)
    }
    fn seq_state(&self) -> (u64, bool) {
        self.0.verif_seq_state()
    }
    fn set_seq(&mut self, seq: u64) {
        self.0.verif_set_seq(seq)
    }
    fn base_nonce(&self) -> Vec<u8> {
        self.0.verif_base_nonce().to_vec()
    }
    fn exporter_secret(&self) -> Vec<u8> {
        self.0.verif_exporter_secret().to_vec()
    }
}

#[derive(Clone, Copy, Debug, PartialEq, Eq, Hash, Serialize, Deserialize, PartialOrd, Ord)]
pub enum SerKind {
    Pk,
    Sk,
    Enc,
    Tag,
}

/// Generic serialisation operations of one type
pub trait SerOps {
    fn size(&self) -> usize;
    /// from_bytes followed by to_bytes
    fn reserialize(&self, b: &[u8]) -> Result<Vec<u8>, HpkeError>;
    /// v = from_bytes(b); v2 = from_bytes(to_bytes(v)); Some(v == v2) when the type has Eq
    fn roundtrip_eq(&self, b: &[u8]) -> Result<Option<bool>, HpkeError>;
    /// va = from_bytes(a), vb = from_bytes(b): (Some(va == vb) when the type has Eq, to_bytes(va), to_bytes(vb))
    fn pair_eq(&self, a: &[u8], b: &[u8]) -> Result<(Option<bool>, Vec<u8>, Vec<u8>), HpkeError>;
    /// from_bytes(valid) then write_exact into a buffer of `buflen` bytes (filled with 0xCC);
    /// panics exactly when hpke's write_exact panics
    fn write_exact(&self, valid: &[u8], buflen: usize) -> Result<Vec<u8>, HpkeError>;
}

struct SerOf<T>(PhantomData<fn() -> T>, Option<fn(&T, &T) -> bool>);

impl<T: Serializable + Deserializable> SerOps for SerOf<T> {
    fn size(&self) -> usize {
        T::size()
    }
    fn reserialize(&self, b: &[u8]) -> Result<Vec<u8>, HpkeError> {
        T::from_bytes(b).map(|v| v.to_bytes().to_vec())
    }
    fn roundtrip_eq(&self, b: &[u8]) -> Result<Option<bool>, HpkeError> {
        let v = T::from_bytes(b)?;
        let v2 = T::from_bytes(&v.to_bytes())?;
        Ok(self.1.map(|f| f(&v, &v2)))
    }
    fn pair_eq(&self, a: &[u8], b: &[u8]) -> Result<(Option<bool>, Vec<u8>, Vec<u8>), HpkeError> {
        let va = T::from_bytes(a)?;
        let vb = T::from_bytes(b)?;
        Ok((self.1.map(|f| f(&va, &vb) && f(&vb, &va)), va.to_bytes().to_vec(), vb.to_bytes().to_vec()))
    }
    fn write_exact(&self, valid: &[u8], buflen: usize) -> Result<Vec<u8>, HpkeError> {
        let v = T::from_bytes(valid)?;
        let mut buf = vec![0xccu8; buflen];
        v.write_exact(&mut buf);
        Ok(buf)
    }
}

/// Memory images of a value's slot before and after `drop_in_place`, with the secrets it held
#[derive(Clone, Debug)]
pub struct DropImage {
    /// the slot right after the value was moved in, before any operation
    pub fresh: Vec<u8>,
    /// the slot after the operations, immediately before the drop
    pub before: Vec<u8>,
    pub after: Vec<u8>,
    /// (name, value, offset of the live field inside the slot as reported by the accessor's pointer)
    pub secrets: Vec<(&'static str, Vec<u8>, usize)>,
}

fn image_of<T>(slot: &MaybeUninit<T>) -> Vec<u8> {
    let p = slot.as_ptr() as *const u8;
    (0..std::mem::size_of::<T>()).map(|i| unsafe { std::ptr::read_volatile(p.add(i)) }).collect()
}

/// `fields` returns, for the value at its final address, the byte slices of the secrets it holds
/// How a probed value is used and dropped
#[derive(Clone, Copy, Debug, Default)]
pub struct ProbePlan {
    /// number of operations performed on the value in place before the drop (contexts: seal /
    /// failing open of a short message)
    pub ops: u8,
    /// drop the value while its thread is unwinding from a (caught) panic
    pub unwinding: bool,
}

struct DropGuard<T>(*mut T);
impl<T> Drop for DropGuard<T> {
    fn drop(&mut self) {
        unsafe { std::ptr::drop_in_place(self.0) }
    }
}

/// `fields` returns, for the value at its final address, the byte slices of the secrets it holds;
/// `op` performs one operation on the value in place
fn drop_probe<T>(v: T, plan: ProbePlan, fields: impl for<'a> Fn(&'a T) -> Vec<(&'static str, &'a [u8])>, mut op: impl FnMut(&mut T, u8)) -> DropImage {
    let mut slot: Box<MaybeUninit<T>> = Box::new(MaybeUninit::uninit());
    unsafe {
        std::ptr::write_bytes(slot.as_mut_ptr() as *mut u8, 0xa5, std::mem::size_of::<T>());
    }
    slot.write(v);
    let base = slot.as_ptr() as usize;
    let secrets: Vec<(&'static str, Vec<u8>, usize)> = {
        let r: &T = unsafe { slot.assume_init_ref() };
        fields(r).into_iter().map(|(n, b)| (n, b.to_vec(), (b.as_ptr() as usize).wrapping_sub(base))).collect()
    };
    let fresh = image_of(&slot);
    for k in 0..plan.ops {
        let r: &mut T = unsafe { slot.assume_init_mut() };
        op(r, k);
    }
    let before = image_of(&slot);
    let ptr = slot.as_mut_ptr();
    if plan.unwinding {
        // the value's Drop runs from a guard while the thread is panicking; the panic is caught
        let _ = std::panic::catch_unwind(std::panic::AssertUnwindSafe(|| {
            let _g = DropGuard(ptr);
            panic!("c16 probe: drop during unwinding");
        }));
    } else {
        unsafe { std::ptr::drop_in_place(ptr) };
    }
    let after = image_of(&slot);
    DropImage { fresh, before, after, secrets }
}

pub type KeyPairBytes = (Vec<u8>, Vec<u8>);

pub trait DynSuite: Send + Sync {
    fn suite(&self) -> Suite;
    fn is_spy(&self) -> bool;

    // KEM
    fn derive_keypair(&self, ikm: &[u8]) -> KeyPairBytes;
    fn gen_keypair(&self, rng: &mut ScriptRng) -> KeyPairBytes;
    fn sk_to_pk(&self, sk: &[u8]) -> Result<Vec<u8>, Fail>;
    /// Kem::encap -> (shared secret, enc)
    fn encap(&self, pk_r: &[u8], sender: Option<(&[u8], &[u8])>, rng: &mut ScriptRng) -> Result<(Vec<u8>, Vec<u8>), Fail>;
    fn decap(&self, sk_r: &[u8], pk_s: Option<&[u8]>, enc: &[u8]) -> Result<Vec<u8>, Fail>;

    // setup
    fn setup_sender(&self, mode: &ModeS, pk_r: &[u8], info: &[u8], rng: &mut ScriptRng) -> Result<(Vec<u8>, Box<dyn DynSender>), Fail>;
    fn setup_receiver(&self, mode: &ModeR, sk_r: &[u8], enc: &[u8], info: &[u8]) -> Result<Box<dyn DynReceiver>, Fail>;

    // single shot
    fn single_shot_seal(&self, mode: &ModeS, pk_r: &[u8], info: &[u8], pt: &[u8], aad: &[u8], rng: &mut ScriptRng) -> Result<(Vec<u8>, Vec<u8>), Fail>;
    fn single_shot_seal_in_place(&self, mode: &ModeS, pk_r: &[u8], info: &[u8], buf: &mut [u8], aad: &[u8], rng: &mut ScriptRng) -> Result<(Vec<u8>, Vec<u8>), Fail>;
    fn single_shot_open(&self, mode: &ModeR, sk_r: &[u8], enc: &[u8], info: &[u8], ct: &[u8], aad: &[u8]) -> Result<Vec<u8>, Fail>;
    fn single_shot_open_in_place(&self, mode: &ModeR, sk_r: &[u8], enc: &[u8], info: &[u8], buf: &mut [u8], aad: &[u8], tag: &[u8]) -> Result<(), Fail>;

    // serialisation
    fn ser(&self, kind: SerKind) -> Box<dyn SerOps>;

    // drop probes (C16)
    fn probe_drop_sender(&self, mode: &ModeS, pk_r: &[u8], info: &[u8], rng: &mut ScriptRng, plan: ProbePlan) -> Result<DropImage, Fail>;
    fn probe_drop_receiver(&self, mode: &ModeR, sk_r: &[u8], enc: &[u8], info: &[u8], plan: ProbePlan) -> Result<DropImage, Fail>;
    fn probe_drop_shared_secret(&self, pk_r: &[u8], sender: Option<(&[u8], &[u8])>, rng: &mut ScriptRng, plan: ProbePlan) -> Result<DropImage, Fail>;
    fn probe_drop_shared_secret_decap(&self, sk_r: &[u8], pk_s: Option<&[u8]>, enc: &[u8], plan: ProbePlan) -> Result<DropImage, Fail>;
}

pub struct Adapter<A, Kdf, Kem> {
    suite: Suite,
    spy: bool,
    _p: PhantomData<fn() -> (A, Kdf, Kem)>,
}

impl<A, Kdf, Kem> DynSuite for Adapter<A, Kdf, Kem>
where
    A: Aead + 'static,
    Kdf: KdfTrait + 'static,
    Kem: KemTrait + 'static,
{
    fn suite(&self) -> Suite {
        self.suite
    }
    fn is_spy(&self) -> bool {
        self.spy
    }

    fn derive_keypair(&self, ikm: &[u8]) -> KeyPairBytes {
        let (sk, pk) = Kem::derive_keypair(ikm);
        (sk.to_bytes().to_vec(), pk.to_bytes().to_vec())
    }
    fn gen_keypair(&self, rng: &mut ScriptRng) -> KeyPairBytes {
        let (sk, pk) = Kem::gen_keypair(rng);
        (sk.to_bytes().to_vec(), pk.to_bytes().to_vec())
    }
    fn sk_to_pk(&self, sk: &[u8]) -> Result<Vec<u8>, Fail> {
        let sk: Kem::PrivateKey = parse("sk", sk)?;
        Ok(Kem::sk_to_pk(&sk).to_bytes().to_vec())
    }
    fn encap(&self, pk_r: &[u8], sender: Option<(&[u8], &[u8])>, rng: &mut ScriptRng) -> Result<(Vec<u8>, Vec<u8>), Fail> {
        let pk_r: Kem::PublicKey = parse("pk_r", pk_r)?;
        let pair: Option<(Kem::PrivateKey, Kem::PublicKey)> = match sender {
            Some((sk, pk)) => Some((parse("sk_s", sk)?, parse("pk_s", pk)?)),
            None => None,
        };
        let (ss, enc) = Kem::encap(&pk_r, pair.as_ref().map(|(a, b)| (a, b)), rng).map_err(Fail::Hpke)?;
        Ok((ss.0.to_vec(), enc.to_bytes().to_vec()))
    }
    fn decap(&self, sk_r: &[u8], pk_s: Option<&[u8]>, enc: &[u8]) -> Result<Vec<u8>, Fail> {
        let sk_r: Kem::PrivateKey = parse("sk_r", sk_r)?;
        let pk_s: Option<Kem::PublicKey> = match pk_s {
            Some(b) => Some(parse("pk_s", b)?),
            None => None,
        };
        let enc: Kem::EncappedKey = parse("enc", enc)?;
        let ss = Kem::decap(&sk_r, pk_s.as_ref(), &enc).map_err(Fail::Hpke)?;
        Ok(ss.0.to_vec())
    }

    fn setup_sender(&self, mode: &ModeS, pk_r: &[u8], info: &[u8], rng: &mut ScriptRng) -> Result<(Vec<u8>, Box<dyn DynSender>), Fail> {
        let m = build_mode_s::<Kem>(mode)?;
        let pk_r: Kem::PublicKey = parse("pk_r", pk_r)?;
        let (enc, ctx) = hpke::setup_sender::<A, Kdf, Kem, _>(&m, &pk_r, info, rng).map_err(Fail::Hpke)?;
        Ok((enc.to_bytes().to_vec(), Box::new(Snd(ctx))))
    }
    fn setup_receiver(&self, mode: &ModeR, sk_r: &[u8], enc: &[u8], info: &[u8]) -> Result<Box<dyn DynReceiver>, Fail> {
        let m = build_mode_r::<Kem>(mode)?;
        let sk_r: Kem::PrivateKey = parse("sk_r", sk_r)?;
        let enc: Kem::EncappedKey = parse("enc", enc)?;
        let ctx = hpke::setup_receiver::<A, Kdf, Kem>(&m, &sk_r, &enc, info).map_err(Fail::Hpke)?;
        Ok(Box::new(Rcv(ctx)))
    }

    fn single_shot_seal(&self, mode: &ModeS, pk_r: &[u8], info: &[u8], pt: &[u8], aad: &[u8], rng: &mut ScriptRng) -> Result<(Vec<u8>, Vec<u8>), Fail> {
        let m = build_mode_s::<Kem>(mode)?;
        let pk_r: Kem::PublicKey = parse("pk_r", pk_r)?;
        let (enc, ct) = hpke::single_shot_seal::<A, Kdf, Kem, _>(&m, &pk_r, info, pt, aad, rng).map_err(Fail::Hpke)?;
        Ok((enc.to_bytes().to_vec(), ct))
    }
    fn single_shot_seal_in_place(&self, mode: &ModeS, pk_r: &[u8], info: &[u8], buf: &mut [u8], aad: &[u8], rng: &mut ScriptRng) -> Result<(Vec<u8>, Vec<u8>), Fail> {
        let m = build_mode_s::<Kem>(mode)?;
        let pk_r: Kem::PublicKey = parse("pk_r", pk_r)?;
        let (enc, tag) = hpke::single_shot_seal_in_place_detached::<A, Kdf, Kem, _>(&m, &pk_r, info, buf, aad, rng).map_err(Fail::Hpke)?;
        Ok((enc.to_bytes().to_vec(), tag.to_bytes().to_vec()))
    }
    fn single_shot_open(&self, mode: &ModeR, sk_r: &[u8], enc: &[u8], info: &[u8], ct: &[u8], aad: &[u8]) -> Result<Vec<u8>, Fail> {
        let m = build_mode_r::<Kem>(mode)?;
        let sk_r: Kem::PrivateKey = parse("sk_r", sk_r)?;
        let enc: Kem::EncappedKey = parse("enc", enc)?;
        hpke::single_shot_open::<A, Kdf, Kem>(&m, &sk_r, &enc, info, ct, aad).map_err(Fail::Hpke)
    }
    fn single_shot_open_in_place(&self, mode: &ModeR, sk_r: &[u8], enc: &[u8], info: &[u8], buf: &mut [u8], aad: &[u8], tag: &[u8]) -> Result<(), Fail> {
        let m = build_mode_r::<Kem>(mode)?;
        let sk_r: Kem::PrivateKey = parse("sk_r", sk_r)?;
        let enc: Kem::EncappedKey = parse("enc", enc)?;
        let tag: AeadTag<A> = parse("tag", tag)?;
        hpke::single_shot_open_in_place_detached::<A, Kdf, Kem>(&m, &sk_r, &enc, info, buf, aad, &tag).map_err(Fail::Hpke)
    }

    fn ser(&self, kind: SerKind) -> Box<dyn SerOps> {
        match kind {
            SerKind::Pk => Box::new(SerOf::<Kem::PublicKey>(PhantomData, Some(|a, b| a == b))),
            SerKind::Sk => Box::new(SerOf::<Kem::PrivateKey>(PhantomData, Some(|a, b| a == b))),
            SerKind::Enc => Box::new(SerOf::<Kem::EncappedKey>(PhantomData, None)),
            SerKind::Tag => Box::new(SerOf::<AeadTag<A>>(PhantomData, None)),
        }
    }

    fn probe_drop_sender(&self, mode: &ModeS, pk_r: &[u8], info: &[u8], rng: &mut ScriptRng, plan: ProbePlan) -> Result<DropImage, Fail> {
        let m = build_mode_s::<Kem>(mode)?;
        let pk_r: Kem::PublicKey = parse("pk_r", pk_r)?;
        let (_, ctx) = hpke::setup_sender::<A, Kdf, Kem, _>(&m, &pk_r, info, rng).map_err(Fail::Hpke)?;
        let sealing = A::AEAD_ID != 0xffff;
        Ok(drop_probe(
            ctx,
            plan,
            |c| vec![("base_nonce", c.verif_base_nonce()), ("exporter_secret", c.verif_exporter_secret())],
            |c, k| {
                if sealing {
                    let mut buf = [0x33u8; 5];
                    let _ = c.seal_in_place_detached(&mut buf, &[k]);
                } else {
                    let mut out = [0u8; 8];
                    let _ = c.export(&[k], &mut out);
                }
            },
        ))
    }
    fn probe_drop_receiver(&self, mode: &ModeR, sk_r: &[u8], enc: &[u8], info: &[u8], plan: ProbePlan) -> Result<DropImage, Fail> {
        let m = build_mode_r::<Kem>(mode)?;
        let sk_r: Kem::PrivateKey = parse("sk_r", sk_r)?;
        let enc: Kem::EncappedKey = parse("enc", enc)?;
        let ctx = hpke::setup_receiver::<A, Kdf, Kem>(&m, &sk_r, &enc, info).map_err(Fail::Hpke)?;
        let sealing = A::AEAD_ID != 0xffff;
        Ok(drop_probe(
            ctx,
            plan,
            |c| vec![("base_nonce", c.verif_base_nonce()), ("exporter_secret", c.verif_exporter_secret())],
            |c, k| {
                if sealing {
                    // a rejected delivery still makes the receiver compute the nonce for its position
                    let mut buf = [0x44u8; 5];
                    let tag = AeadTag::<A>::from_bytes(&[k; 16]);
                    if let Ok(t) = tag {
                        let _ = c.open_in_place_detached(&mut buf, &[k], &t);
                    }
                } else {
                    let mut out = [0u8; 8];
                    let _ = c.export(&[k], &mut out);
                }
            },
        ))
    }
    fn probe_drop_shared_secret(&self, pk_r: &[u8], sender: Option<(&[u8], &[u8])>, rng: &mut ScriptRng, plan: ProbePlan) -> Result<DropImage, Fail> {
        let pk_r: Kem::PublicKey = parse("pk_r", pk_r)?;
        let pair: Option<(Kem::PrivateKey, Kem::PublicKey)> = match sender {
            Some((sk, pk)) => Some((parse("sk_s", sk)?, parse("pk_s", pk)?)),
            None => None,
        };
        let (ss, _) = Kem::encap(&pk_r, pair.as_ref().map(|(a, b)| (a, b)), rng).map_err(Fail::Hpke)?;
        Ok(drop_probe(ss, plan, |s| vec![("shared_secret", &s.0[..])], |_, _| {}))
    }
    fn probe_drop_shared_secret_decap(&self, sk_r: &[u8], pk_s: Option<&[u8]>, enc: &[u8], plan: ProbePlan) -> Result<DropImage, Fail> {
        let sk_r: Kem::PrivateKey = parse("sk_r", sk_r)?;
        let pk_s: Option<Kem::PublicKey> = match pk_s {
            Some(b) => Some(parse("pk_s", b)?),
            None => None,
        };
        let enc: Kem::EncappedKey = parse("enc", enc)?;
        let ss = Kem::decap(&sk_r, pk_s.as_ref(), &enc).map_err(Fail::Hpke)?;
        Ok(drop_probe(ss, plan, |s| vec![("shared_secret", &s.0[..])], |_, _| {}))
    }
}

fn row<A: Aead + 'static, Kdf: KdfTrait + 'static, Kem: KemTrait + 'static>(
    kem: KemId,
    kdf: KdfId,
    aead: AeadId,
    spy: bool,
) -> Box<dyn DynSuite> {
    Box::new(Adapter::<A, Kdf, Kem> { suite: Suite { kem, kdf, aead }, spy, _p: PhantomData })
}

fn build_table() -> Vec<Box<dyn DynSuite>> {
    use hpke::aead::{AesGcm128, AesGcm256, ChaCha20Poly1305, ExportOnlyAead};
    use hpke::kdf::{HkdfSha256, HkdfSha384, HkdfSha512};
    use hpke::kem::{DhP256HkdfSha256, DhP384HkdfSha384, DhP521HkdfSha512, X25519HkdfSha256};
    let mut v: Vec<Box<dyn DynSuite>> = Vec::new();
    macro_rules! aeads {
        ($kem:ty, $kemid:expr, $kdf:ty, $kdfid:expr) => {
            v.push(row::<AesGcm128, $kdf, $kem>($kemid, $kdfid, AeadId::Aes128, false));
            v.push(row::<AesGcm256, $kdf, $kem>($kemid, $kdfid, AeadId::Aes256, false));
            v.push(row::<ChaCha20Poly1305, $kdf, $kem>($kemid, $kdfid, AeadId::ChaCha, false));
            v.push(row::<ExportOnlyAead, $kdf, $kem>($kemid, $kdfid, AeadId::Export, false));
            v.push(row::<SpyAead, $kdf, $kem>($kemid, $kdfid, AeadId::ChaCha, true));
        };
    }
    macro_rules! kdfs {
        ($kem:ty, $kemid:expr) => {
            aeads!($kem, $kemid, HkdfSha256, KdfId::Sha256);
            aeads!($kem, $kemid, HkdfSha384, KdfId::Sha384);
            aeads!($kem, $kemid, HkdfSha512, KdfId::Sha512);
        };
    }
    kdfs!(X25519HkdfSha256, KemId::X25519);
    kdfs!(DhP256HkdfSha256, KemId::P256);
    kdfs!(DhP384HkdfSha384, KemId::P384);
    kdfs!(DhP521HkdfSha512, KemId::P521);
    v
}

pub fn table() -> &'static [Box<dyn DynSuite>] {
    static T: std::sync::OnceLock<Vec<Box<dyn DynSuite>>> = std::sync::OnceLock::new();
    T.get_or_init(build_table)
}

/// The adapter of a suite (the real AEAD)
pub fn get(s: Suite) -> &'static dyn DynSuite {
    table().iter().find(|r| r.suite() == s && !r.is_spy()).map(|b| b.as_ref()).expect("suite in table")
}

/// The adapter of (kem, kdf) with the recording SpyAead (AEAD id 3, ChaCha20Poly1305 inside)
pub fn get_spy(kem: KemId, kdf: KdfId) -> &'static dyn DynSuite {
    table()
        .iter()
        .find(|r| r.is_spy() && r.suite().kem == kem && r.suite().kdf == kdf)
        .map(|b| b.as_ref())
        .expect("spy suite in table")
}

/// `PskBundle::new` on its own (C15)
pub fn psk_bundle_new(psk: &[u8], psk_id: &[u8]) -> Result<(), HpkeError> {
    PskBundle::new(psk, psk_id).map(|_| ())
}

/// A KEM-only view: any row with this KEM (KEM operations do not depend on the KDF/AEAD of the suite)
pub fn get_kem(kem: KemId) -> &'static dyn DynSuite {
    get(Suite { kem, kdf: KdfId::Sha256, aead: AeadId::ChaCha })
}

/// Drop ledger snapshot: (drops, dirty drops) for AeadKey, AeadNonce, ExporterSecret, SharedSecret
pub fn ledger() -> [(usize, usize); 4] {
    use hpke::verif::{ledger, Kind};
    [ledger(Kind::AeadKey), ledger(Kind::AeadNonce), ledger(Kind::ExporterSecret), ledger(Kind::SharedSecret)]
}
pub const LEDGER_NAMES: [&str; 4] = ["AeadKey", "AeadNonce", "ExporterSecret", "SharedSecret"];
