//! Loading of the committed seed material under /verif/corpus.

use crate::refmodel::hpke_ref::{AeadId, KdfId, KemId, Suite};
use crate::util::Bytes;
use serde::Deserialize;
use std::path::PathBuf;

pub fn verif_root() -> PathBuf {
    PathBuf::from(std::env::var("VERIF_ROOT").unwrap_or_else(|_| "/verif".to_string()))
}

#[derive(Clone, Debug, Deserialize)]
pub struct Encryption {
    pub aad: Bytes,
    pub pt: Bytes,
    pub nonce: Bytes,
    pub ct: Bytes,
}

#[derive(Clone, Debug, Deserialize)]
pub struct ExportVec {
    pub exporter_context: Bytes,
    #[serde(rename = "L")]
    pub l: usize,
    pub value: Bytes,
}

/// One golden vector (fields as in the RFC 9180 test-vector format); also used for the anchors,
/// which carry only a subset of the fields.
#[derive(Clone, Debug, Deserialize)]
pub struct Golden {
    pub name: Option<String>,
    pub kem_id: u16,
    pub kdf_id: u16,
    pub aead_id: u16,
    pub mode: u8,
    #[serde(rename = "ikmR")]
    pub ikm_r: Bytes,
    #[serde(rename = "ikmE")]
    pub ikm_e: Bytes,
    #[serde(rename = "ikmS")]
    pub ikm_s: Option<Bytes>,
    pub info: Option<Bytes>,
    pub psk: Option<Bytes>,
    pub psk_id: Option<Bytes>,
    #[serde(rename = "skRm")]
    pub sk_rm: Option<Bytes>,
    #[serde(rename = "pkRm")]
    pub pk_rm: Option<Bytes>,
    #[serde(rename = "skSm")]
    pub sk_sm: Option<Bytes>,
    #[serde(rename = "pkSm")]
    pub pk_sm: Option<Bytes>,
    pub enc: Bytes,
    pub shared_secret: Option<Bytes>,
    pub key_schedule_context: Option<Bytes>,
    pub secret: Option<Bytes>,
    pub key: Option<Bytes>,
    pub base_nonce: Option<Bytes>,
    pub exporter_secret: Option<Bytes>,
    #[serde(default)]
    pub encryptions: Vec<Encryption>,
    #[serde(default)]
    pub exports: Vec<ExportVec>,
    /// anchors only: the first ciphertext (pt/aad are the common values)
    pub ct0: Option<Bytes>,
}

impl Golden {
    pub fn suite(&self) -> Suite {
        Suite {
            kem: KemId::from_id(self.kem_id).expect("kem id"),
            kdf: KdfId::from_id(self.kdf_id).expect("kdf id"),
            aead: AeadId::from_id(self.aead_id).expect("aead id"),
        }
    }
}

#[derive(Clone, Debug, Deserialize)]
pub struct AnchorCommon {
    pub info: Bytes,
    pub pt: Bytes,
    pub aad0: Bytes,
    pub psk: Bytes,
    pub psk_id: Bytes,
}

#[derive(Deserialize)]
struct AnchorFile {
    common: AnchorCommon,
    vectors: Vec<Golden>,
}

#[derive(Deserialize)]
struct GoldenFile {
    vectors: Vec<Golden>,
}

fn read(rel: &str) -> Result<String, String> {
    let p = verif_root().join(rel);
    std::fs::read_to_string(&p).map_err(|e| format!("cannot read {}: {}", p.display(), e))
}

/// The six verified RFC 9180 Appendix A anchors, normalised: the common info/psk/psk_id/pt/aad are
/// filled in and `ct0` becomes `encryptions[0]`.
pub fn anchors() -> Result<Vec<Golden>, String> {
    let f: AnchorFile = serde_json::from_str(&read("corpus/anchors.json")?).map_err(|e| e.to_string())?;
    let mut out = Vec::new();
    for mut v in f.vectors {
        v.info = Some(f.common.info.clone());
        if v.mode & 1 != 0 {
            v.psk = Some(f.common.psk.clone());
            v.psk_id = Some(f.common.psk_id.clone());
        }
        if let Some(ct0) = v.ct0.clone() {
            v.encryptions = vec![Encryption {
                aad: f.common.aad0.clone(),
                pt: f.common.pt.clone(),
                nonce: v.base_nonce.clone().unwrap_or_default(),
                ct: ct0,
            }];
        }
        out.push(v);
    }
    Ok(out)
}

pub fn golden() -> Result<Vec<Golden>, String> {
    let f: GoldenFile =
        serde_json::from_str(&read("corpus/golden_rfc9180.json")?).map_err(|e| e.to_string())?;
    Ok(f.vectors)
}

#[derive(Clone, Debug, Deserialize)]
pub struct Counter1Entry {
    pub ikm: Bytes,
    pub cand0: Bytes,
    pub cand1: Bytes,
    pub expected_sk: Bytes,
}

#[derive(Deserialize)]
struct Counter1File {
    entries: Vec<Counter1Entry>,
}

pub fn p256_counter1() -> Result<Vec<Counter1Entry>, String> {
    let f: Counter1File =
        serde_json::from_str(&read("corpus/p256_counter1.json")?).map_err(|e| e.to_string())?;
    Ok(f.entries)
}

pub fn curves_json() -> Result<serde_json::Value, String> {
    serde_json::from_str(&read("corpus/curves.json")?).map_err(|e| e.to_string())
}

/// The 14 X25519 encodings whose DH output is zero for every scalar
pub fn small_order_14() -> Result<Vec<[u8; 32]>, String> {
    let c = curves_json()?;
    let arr = c["curve25519"]["x25519_small_order_u"].as_array().ok_or("no small order list")?;
    let mut out = Vec::new();
    for v in arr {
        let b = crate::util::unhex(v.as_str().ok_or("not a string")?);
        let mut a = [0u8; 32];
        a.copy_from_slice(&b);
        out.push(a);
        let mut hi = a;
        hi[31] |= 0x80;
        out.push(hi);
    }
    Ok(out)
}
