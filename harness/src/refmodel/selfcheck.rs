//! Start-up self check of the oracle. A failure here is an *oracle* failure (exit 2), never a
//! violation: the arithmetic must satisfy the group laws and reproduce the committed curve
//! constants, and the reference model must reproduce the six verified RFC 9180 anchors and every
//! golden vector (which come from an independent Python implementation with its own primitives).

use super::arith::{from_hex, CurveId};
use super::hpke_ref::*;
use crate::corpus::{self, Golden};

fn eq(name: &str, what: &str, got: &[u8], want: &[u8]) -> Result<(), String> {
    if got != want {
        Err(format!(
            "oracle self-check: {} {}: reference gives {} but the vector says {}",
            name,
            what,
            crate::util::hex_short(got),
            crate::util::hex_short(want)
        ))
    } else {
        Ok(())
    }
}

/// Runs one vector through the reference model; checks every field the vector carries.
pub fn check_vector(v: &Golden, name: &str) -> Result<(), String> {
    let suite = v.suite();
    let kem = suite.kem;
    let (sk_r, pk_r) = derive_key_pair(kem, &v.ikm_r);
    if let Some(w) = &v.sk_rm {
        eq(name, "skRm", &sk_r, w)?;
    }
    if let Some(w) = &v.pk_rm {
        eq(name, "pkRm", &pk_r, w)?;
    }
    let (sk_s, pk_s) = match &v.ikm_s {
        Some(ikm) => derive_key_pair(kem, ikm),
        None => (vec![], vec![]),
    };
    if let Some(w) = &v.sk_sm {
        eq(name, "skSm", &sk_s, w)?;
    }
    if let Some(w) = &v.pk_sm {
        eq(name, "pkSm", &pk_s, w)?;
    }
    let empty = crate::util::Bytes(vec![]);
    let info = v.info.as_ref().unwrap_or(&empty);
    let psk = v.psk.as_ref().unwrap_or(&empty);
    let psk_id = v.psk_id.as_ref().unwrap_or(&empty);
    let (enc, ks) = setup_s(&SenderIn {
        suite,
        mode: v.mode,
        pk_r: &pk_r,
        info,
        psk,
        psk_id,
        sk_s: &sk_s,
        pk_s: &pk_s,
        ikm_e: &v.ikm_e,
    })
    .ok_or_else(|| format!("oracle self-check: {} SetupS failed", name))?;
    eq(name, "enc", &enc, &v.enc)?;
    let kr = setup_r(&ReceiverIn {
        suite,
        mode: v.mode,
        sk_r: &sk_r,
        enc: &enc,
        info,
        psk,
        psk_id,
        pk_s: &pk_s,
    })
    .ok_or_else(|| format!("oracle self-check: {} SetupR failed", name))?;
    if kr != ks {
        return Err(format!("oracle self-check: {} sender and receiver key schedules differ", name));
    }
    if let Some(w) = &v.key_schedule_context {
        eq(name, "key_schedule_context", &ks.key_schedule_context, w)?;
    }
    if let Some(w) = &v.secret {
        eq(name, "secret", &ks.secret, w)?;
    }
    if let Some(w) = &v.key {
        eq(name, "key", &ks.key, w)?;
    }
    if let Some(w) = &v.base_nonce {
        eq(name, "base_nonce", &ks.base_nonce, w)?;
    }
    if let Some(w) = &v.exporter_secret {
        eq(name, "exporter_secret", &ks.exporter_secret, w)?;
    }
    if let Some(w) = &v.shared_secret {
        let ss = if v.mode & 2 != 0 {
            auth_decap(kem, &enc, &sk_r, &pk_s)
        } else {
            decap(kem, &enc, &sk_r)
        }
        .ok_or("decap failed")?;
        eq(name, "shared_secret", &ss, w)?;
    }
    if suite.aead.sealing() {
        for (i, e) in v.encryptions.iter().enumerate() {
            let ct = ks.seal(i as u64, &e.aad, &e.pt);
            eq(name, &format!("ct[{}]", i), &ct, &e.ct)?;
            if !e.nonce.is_empty() {
                eq(name, &format!("nonce[{}]", i), &compute_nonce(&ks.base_nonce, i as u64), &e.nonce)?;
            }
            let pt = kr.open(i as u64, &e.aad, &e.ct).ok_or("reference open failed")?;
            eq(name, &format!("pt[{}]", i), &pt, &e.pt)?;
        }
    }
    for (i, x) in v.exports.iter().enumerate() {
        let got = ks.export(&x.exporter_context, x.l).ok_or("reference export failed")?;
        eq(name, &format!("export[{}]", i), &got, &x.value)?;
    }
    Ok(())
}

pub struct SelfCheckReport {
    pub anchors: usize,
    pub golden: usize,
}

pub fn arithmetic_selfcheck() -> Result<(), String> {
    // curves.json must agree with the constants compiled into arith.rs
    let cj = corpus::curves_json()?;
    for (id, name, kem) in [
        (CurveId::P256, "P-256", KemId::P256),
        (CurveId::P384, "P-384", KemId::P384),
        (CurveId::P521, "P-521", KemId::P521),
    ] {
        let c = kem.curve().unwrap();
        assert_eq!(c.id, id);
        c.self_check()?;
        let j = &cj["curves"][name];
        let k = c.k();
        let f = &c.fp;
        let get = |key: &str| -> Result<Vec<u64>, String> {
            Ok(from_hex(j[key].as_str().ok_or(format!("curves.json {} {}", name, key))?, k))
        };
        if get("p")? != c.p
            || get("n")? != c.n
            || get("b")? != f.from_mont(&c.b)
            || get("gx")? != f.from_mont(&c.gx)
            || get("gy")? != f.from_mont(&c.gy)
            || j["field_bytes"].as_u64() != Some(c.fb as u64)
        {
            return Err(format!("oracle self-check: {} constants differ from corpus/curves.json", name));
        }
    }
    x25519().self_check()?;
    // all 14 small-order encodings give zero for an arbitrary scalar, neighbours do not
    let k = [0x5au8; 32];
    for u in corpus::small_order_14()? {
        if x25519().x25519(&k, &u) != [0u8; 32] {
            return Err("oracle self-check: small-order encoding with non-zero DH".into());
        }
    }
    let mut two = [0u8; 32];
    two[0] = 2;
    if x25519().x25519(&k, &two) == [0u8; 32] {
        return Err("oracle self-check: u=2 gives zero".into());
    }
    Ok(())
}

/// Full oracle self check. `golden_stride` = 1 checks all golden vectors.
pub fn oracle_selfcheck(golden_stride: usize) -> Result<SelfCheckReport, String> {
    arithmetic_selfcheck()?;
    let anchors = corpus::anchors()?;
    for v in &anchors {
        check_vector(v, v.name.as_deref().unwrap_or("anchor"))?;
    }
    let golden = corpus::golden()?;
    // the golden vectors are independent of each other: check them in parallel
    let n = golden.len();
    let errs = std::sync::Mutex::new(Vec::<String>::new());
    let next = std::sync::atomic::AtomicUsize::new(0);
    std::thread::scope(|s| {
        for _ in 0..crate::engine::workers() {
            s.spawn(|| loop {
                let i = next.fetch_add(1, std::sync::atomic::Ordering::SeqCst);
                if i >= n {
                    break;
                }
                if i % golden_stride != 0 {
                    continue;
                }
                if let Err(e) = check_vector(&golden[i], &format!("golden[{}]", i)) {
                    errs.lock().unwrap().push(e);
                }
            });
        }
    });
    let errs = errs.into_inner().unwrap();
    if let Some(e) = errs.first() {
        return Err(e.clone());
    }
    Ok(SelfCheckReport { anchors: anchors.len(), golden: (n + golden_stride - 1) / golden_stride })
}
