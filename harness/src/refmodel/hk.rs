//! HMAC (RFC 2104) and HKDF (RFC 5869) written out by hand over the SHA-2 hash functions, plus the
//! RFC 9180 section 4 labeled variants. Does not use the `hmac` or `hkdf` crates.

use sha2::{Digest, Sha256, Sha384, Sha512};

#[derive(Clone, Copy, Debug, PartialEq, Eq, Hash, serde::Serialize, serde::Deserialize)]
pub enum KdfId {
    Sha256,
    Sha384,
    Sha512,
}

impl KdfId {
    pub const ALL: [KdfId; 3] = [KdfId::Sha256, KdfId::Sha384, KdfId::Sha512];
    pub fn id(self) -> u16 {
        match self {
            KdfId::Sha256 => 1,
            KdfId::Sha384 => 2,
            KdfId::Sha512 => 3,
        }
    }
    pub fn from_id(id: u16) -> Option<KdfId> {
        Self::ALL.iter().copied().find(|k| k.id() == id)
    }
    /// Nh
    pub fn nh(self) -> usize {
        match self {
            KdfId::Sha256 => 32,
            KdfId::Sha384 => 48,
            KdfId::Sha512 => 64,
        }
    }
    fn block(self) -> usize {
        match self {
            KdfId::Sha256 => 64,
            _ => 128,
        }
    }
    pub fn hash(self, parts: &[&[u8]]) -> Vec<u8> {
        match self {
            KdfId::Sha256 => {
                let mut h = Sha256::new();
                for p in parts {
                    h.update(p);
                }
                h.finalize().to_vec()
            }
            KdfId::Sha384 => {
                let mut h = Sha384::new();
                for p in parts {
                    h.update(p);
                }
                h.finalize().to_vec()
            }
            KdfId::Sha512 => {
                let mut h = Sha512::new();
                for p in parts {
                    h.update(p);
                }
                h.finalize().to_vec()
            }
        }
    }

    pub fn hmac(self, key: &[u8], parts: &[&[u8]]) -> Vec<u8> {
        let b = self.block();
        let mut k0 = vec![0u8; b];
        if key.len() > b {
            let h = self.hash(&[key]);
            k0[..h.len()].copy_from_slice(&h);
        } else {
            k0[..key.len()].copy_from_slice(key);
        }
        let ipad: Vec<u8> = k0.iter().map(|x| x ^ 0x36).collect();
        let opad: Vec<u8> = k0.iter().map(|x| x ^ 0x5c).collect();
        let mut inner_parts: Vec<&[u8]> = vec![&ipad];
        inner_parts.extend_from_slice(parts);
        let inner = self.hash(&inner_parts);
        self.hash(&[&opad, &inner])
    }

    /// HKDF-Extract(salt, ikm)
    pub fn extract(self, salt: &[u8], ikm_parts: &[&[u8]]) -> Vec<u8> {
        // RFC 5869: an absent salt is Nh zero bytes; HMAC pads an empty key to the same block, so
        // both read identically. Written out explicitly all the same.
        let zeros = vec![0u8; self.nh()];
        let salt = if salt.is_empty() { &zeros[..] } else { salt };
        self.hmac(salt, ikm_parts)
    }

    /// HKDF-Expand(prk, info, L); None when L > 255*Nh
    pub fn expand(self, prk: &[u8], info_parts: &[&[u8]], l: usize) -> Option<Vec<u8>> {
        let nh = self.nh();
        if l > 255 * nh {
            return None;
        }
        let mut out = Vec::with_capacity(l + nh);
        let mut t: Vec<u8> = Vec::new();
        let mut i = 1u32;
        while out.len() < l {
            let ctr = [i as u8];
            let mut parts: Vec<&[u8]> = vec![&t];
            parts.extend_from_slice(info_parts);
            parts.push(&ctr);
            let nt = self.hmac(prk, &parts);
            out.extend_from_slice(&nt);
            t = nt;
            i += 1;
        }
        out.truncate(l);
        Some(out)
    }

    /// RFC 9180: LabeledExtract(salt, label, ikm) with an explicit suite_id
    pub fn labeled_extract(self, suite_id: &[u8], salt: &[u8], label: &[u8], ikm: &[u8]) -> Vec<u8> {
        self.extract(salt, &[b"HPKE-v1", suite_id, label, ikm])
    }

    /// RFC 9180: LabeledExpand(prk, label, info, L); None when L does not fit I2OSP(L, 2) or
    /// exceeds 255*Nh
    pub fn labeled_expand(
        self,
        suite_id: &[u8],
        prk: &[u8],
        label: &[u8],
        info: &[u8],
        l: usize,
    ) -> Option<Vec<u8>> {
        if l > 0xffff {
            return None;
        }
        let lb = [(l >> 8) as u8, (l & 0xff) as u8];
        self.expand(prk, &[&lb, b"HPKE-v1", suite_id, label, info], l)
    }
}
