//! Arithmetic oracle: fixed-width big integers, Montgomery arithmetic, short-Weierstrass curves with
//! a = -3 (P-256/384/521) and the RFC 7748 X25519 ladder. Written for the verification harness;
//! shares no code with hpke or with the RustCrypto / dalek curve crates. Not constant time.

use std::cmp::Ordering;

pub type Limbs = Vec<u64>;

pub fn from_be(bytes: &[u8], k: usize) -> Limbs {
    let mut out = vec![0u64; k];
    for (i, b) in bytes.iter().rev().enumerate() {
        if i / 8 >= k {
            assert!(*b == 0, "from_be: value does not fit");
            continue;
        }
        out[i / 8] |= (*b as u64) << (8 * (i % 8));
    }
    out
}

pub fn from_le(bytes: &[u8], k: usize) -> Limbs {
    let mut v = bytes.to_vec();
    v.reverse();
    from_be(&v, k)
}

pub fn to_be(x: &[u64], len: usize) -> Vec<u8> {
    let mut out = vec![0u8; len];
    for i in 0..len {
        let limb = i / 8;
        let byte = if limb < x.len() { (x[limb] >> (8 * (i % 8))) as u8 } else { 0 };
        out[len - 1 - i] = byte;
    }
    out
}

pub fn to_le(x: &[u64], len: usize) -> Vec<u8> {
    let mut v = to_be(x, len);
    v.reverse();
    v
}

pub fn from_hex(s: &str, k: usize) -> Limbs {
    let s = s.trim_start_matches("0x");
    let s = if s.len() % 2 == 1 { format!("0{}", s) } else { s.to_string() };
    from_be(&crate::util::unhex(&s), k)
}

pub fn cmp(a: &[u64], b: &[u64]) -> Ordering {
    debug_assert_eq!(a.len(), b.len());
    for i in (0..a.len()).rev() {
        match a[i].cmp(&b[i]) {
            Ordering::Equal => continue,
            o => return o,
        }
    }
    Ordering::Equal
}

pub fn is_zero(a: &[u64]) -> bool {
    a.iter().all(|&x| x == 0)
}

/// a += b, returns carry
fn add_assign(a: &mut [u64], b: &[u64]) -> u64 {
    let mut c = 0u128;
    for i in 0..a.len() {
        let s = a[i] as u128 + b[i] as u128 + c;
        a[i] = s as u64;
        c = s >> 64;
    }
    c as u64
}

/// a -= b, returns borrow
fn sub_assign(a: &mut [u64], b: &[u64]) -> u64 {
    let mut br = 0u64;
    for i in 0..a.len() {
        let (d1, b1) = a[i].overflowing_sub(b[i]);
        let (d2, b2) = d1.overflowing_sub(br);
        a[i] = d2;
        br = (b1 as u64) | (b2 as u64);
    }
    br
}

pub fn bit(a: &[u64], i: usize) -> bool {
    (a[i / 64] >> (i % 64)) & 1 == 1
}

pub fn bitlen(a: &[u64]) -> usize {
    for i in (0..a.len()).rev() {
        if a[i] != 0 {
            return 64 * i + (64 - a[i].leading_zeros() as usize);
        }
    }
    0
}

/// Montgomery context for an odd modulus
#[derive(Clone, Debug)]
pub struct Mont {
    pub n: Limbs,
    pub k: usize,
    n0inv: u64,
    r2: Limbs,
    pub one: Limbs,
}

impl Mont {
    pub fn new(n: Limbs) -> Mont {
        let k = n.len();
        assert!(n[0] & 1 == 1);
        // -n^{-1} mod 2^64 by Newton iteration
        let mut inv: u64 = 1;
        for _ in 0..6 {
            inv = inv.wrapping_mul(2u64.wrapping_sub(n[0].wrapping_mul(inv)));
        }
        let n0inv = inv.wrapping_neg();
        // R mod n and R^2 mod n by repeated doubling
        let mut x = vec![0u64; k];
        x[0] = 1;
        // reduce 1 (already < n unless n == 1)
        let mut one = None;
        for i in 0..(2 * 64 * k) {
            // x = 2x mod n
            let mut carry = 0u64;
            for limb in x.iter_mut() {
                let nc = *limb >> 63;
                *limb = (*limb << 1) | carry;
                carry = nc;
            }
            if carry == 1 || cmp(&x, &n) != Ordering::Less {
                sub_assign(&mut x, &n);
            }
            if i + 1 == 64 * k {
                one = Some(x.clone());
            }
        }
        Mont { n, k, n0inv, r2: x, one: one.unwrap() }
    }

    /// CIOS Montgomery multiplication: a*b*R^-1 mod n
    pub fn mul(&self, a: &[u64], b: &[u64]) -> Limbs {
        let k = self.k;
        let mut t = vec![0u64; k + 2];
        for i in 0..k {
            let mut c = 0u128;
            for j in 0..k {
                let s = t[j] as u128 + (a[j] as u128) * (b[i] as u128) + c;
                t[j] = s as u64;
                c = s >> 64;
            }
            let s = t[k] as u128 + c;
            t[k] = s as u64;
            t[k + 1] = (s >> 64) as u64;
            let m = t[0].wrapping_mul(self.n0inv);
            let s = t[0] as u128 + (m as u128) * (self.n[0] as u128);
            let mut c = s >> 64;
            for j in 1..k {
                let s = t[j] as u128 + (m as u128) * (self.n[j] as u128) + c;
                t[j - 1] = s as u64;
                c = s >> 64;
            }
            let s = t[k] as u128 + c;
            t[k - 1] = s as u64;
            t[k] = t[k + 1] + ((s >> 64) as u64);
        }
        let mut r = t[..k].to_vec();
        if t[k] != 0 || cmp(&r, &self.n) != Ordering::Less {
            sub_assign(&mut r, &self.n);
        }
        r
    }

    pub fn sqr(&self, a: &[u64]) -> Limbs {
        self.mul(a, a)
    }

    /// Reduces an arbitrary k-limb value mod n (value < 2^(64k))
    pub fn reduce(&self, a: &[u64]) -> Limbs {
        // a*R^2*R^-1 = a*R; then *1*R^-1 = a mod n
        let am = self.mul(a, &self.r2);
        let mut o = vec![0u64; self.k];
        o[0] = 1;
        self.mul(&am, &o)
    }

    pub fn to_mont(&self, a: &[u64]) -> Limbs {
        self.mul(a, &self.r2)
    }

    pub fn from_mont(&self, a: &[u64]) -> Limbs {
        let mut o = vec![0u64; self.k];
        o[0] = 1;
        self.mul(a, &o)
    }

    pub fn add(&self, a: &[u64], b: &[u64]) -> Limbs {
        let mut r = a.to_vec();
        let c = add_assign(&mut r, b);
        if c == 1 || cmp(&r, &self.n) != Ordering::Less {
            sub_assign(&mut r, &self.n);
        }
        r
    }

    pub fn sub(&self, a: &[u64], b: &[u64]) -> Limbs {
        let mut r = a.to_vec();
        if sub_assign(&mut r, b) == 1 {
            add_assign(&mut r, &self.n);
        }
        r
    }

    pub fn neg(&self, a: &[u64]) -> Limbs {
        let z = vec![0u64; self.k];
        self.sub(&z, a)
    }

    pub fn small(&self, v: u64) -> Limbs {
        let mut x = vec![0u64; self.k];
        x[0] = v;
        self.to_mont(&self.reduce(&x))
    }

    /// base (Montgomery form) ^ e (plain integer), result in Montgomery form
    pub fn pow(&self, base: &[u64], e: &[u64]) -> Limbs {
        let mut acc = self.one.clone();
        let n = bitlen(e);
        for i in (0..n).rev() {
            acc = self.sqr(&acc);
            if bit(e, i) {
                acc = self.mul(&acc, base);
            }
        }
        acc
    }

    /// Inverse by Fermat (modulus must be prime); input and output in Montgomery form
    pub fn inv(&self, a: &[u64]) -> Limbs {
        let mut e = self.n.clone();
        let mut two = vec![0u64; self.k];
        two[0] = 2;
        sub_assign(&mut e, &two);
        self.pow(a, &e)
    }

    /// Square root for n = 3 mod 4; returns None when `a` is a non-residue. Montgomery form.
    pub fn sqrt_3mod4(&self, a: &[u64]) -> Option<Limbs> {
        assert!(self.n[0] & 3 == 3);
        // e = (n+1)/4
        let mut e = self.n.clone();
        let mut one = vec![0u64; self.k];
        one[0] = 1;
        let carry = add_assign(&mut e, &one);
        // shift right by 2 (with carry bit)
        let mut hi = carry;
        for i in (0..self.k).rev() {
            let lo = e[i] & 3;
            e[i] = (e[i] >> 2) | (hi << 62);
            hi = lo;
        }
        let r = self.pow(a, &e);
        if self.sqr(&r) == a {
            Some(r)
        } else {
            None
        }
    }
}

// ------------------------------------------------------------------------------------------------
// Short Weierstrass curves y^2 = x^3 - 3x + b

#[derive(Clone, Copy, Debug, PartialEq, Eq, Hash, serde::Serialize, serde::Deserialize)]
pub enum CurveId {
    P256,
    P384,
    P521,
}

pub struct Curve {
    pub id: CurveId,
    pub fb: usize, // field element size in bytes
    pub fp: Mont,
    pub p: Limbs,
    pub a: Limbs,  // Montgomery
    pub b: Limbs,  // Montgomery
    pub gx: Limbs, // Montgomery
    pub gy: Limbs, // Montgomery
    pub n: Limbs,
}

/// Jacobian point, coordinates in Montgomery form; z == 0 is the point at infinity
#[derive(Clone, Debug)]
pub struct Jac {
    x: Limbs,
    y: Limbs,
    z: Limbs,
}

/// Affine point in plain integers
#[derive(Clone, Debug, PartialEq, Eq)]
pub struct Affine {
    pub x: Limbs,
    pub y: Limbs,
}

// Domain parameters (FIPS 186-4 / SEC 2). They are cross-checked at start-up against
// corpus/curves.json, against G being on the curve and against n*G = O (see `self_check`).
const P256: [&str; 5] = [
    "ffffffff00000001000000000000000000000000ffffffffffffffffffffffff",
    "5ac635d8aa3a93e7b3ebbd55769886bc651d06b0cc53b0f63bce3c3e27d2604b",
    "6b17d1f2e12c4247f8bce6e563a440f277037d812deb33a0f4a13945d898c296",
    "4fe342e2fe1a7f9b8ee7eb4a7c0f9e162bce33576b315ececbb6406837bf51f5",
    "ffffffff00000000ffffffffffffffffbce6faada7179e84f3b9cac2fc632551",
];
const P384: [&str; 5] = [
    "fffffffffffffffffffffffffffffffffffffffffffffffffffffffffffffffeffffffff0000000000000000ffffffff",
    "b3312fa7e23ee7e4988e056be3f82d19181d9c6efe8141120314088f5013875ac656398d8a2ed19d2a85c8edd3ec2aef",
    "aa87ca22be8b05378eb1c71ef320ad746e1d3b628ba79b9859f741e082542a385502f25dbf55296c3a545e3872760ab7",
    "3617de4a96262c6f5d9e98bf9292dc29f8f41dbd289a147ce9da3113b5f0b8c00a60b1ce1d7e819d7a431d7c90ea0e5f",
    "ffffffffffffffffffffffffffffffffffffffffffffffffc7634d81f4372ddf581a0db248b0a77aecec196accc52973",
];
const P521: [&str; 5] = [
    "01ffffffffffffffffffffffffffffffffffffffffffffffffffffffffffffffffffffffffffffffffffffffffffffffffffffffffffffffffffffffffffffffffff",
    "0051953eb9618e1c9a1f929a21a0b68540eea2da725b99b315f3b8b489918ef109e156193951ec7e937b1652c0bd3bb1bf073573df883d2c34f1ef451fd46b503f00",
    "00c6858e06b70404e9cd9e3ecb662395b4429c648139053fb521f828af606b4d3dbaa14b5e77efe75928fe1dc127a2ffa8de3348b3c1856a429bf97e7e31c2e5bd66",
    "011839296a789a3bc0045c8a5fb42c7d1bd998f54449579b446817afbd17273e662c97ee72995ef42640c550b9013fad0761353c7086a272c24088be94769fd16650",
    "01fffffffffffffffffffffffffffffffffffffffffffffffffffffffffffffffffa51868783bf2f966b7fcc0148f709a5d03bb5c9b8899c47aebb6fb71e91386409",
];

impl Curve {
    pub fn new(id: CurveId) -> Curve {
        let (fb, k, c) = match id {
            CurveId::P256 => (32, 4, &P256),
            CurveId::P384 => (48, 6, &P384),
            CurveId::P521 => (66, 9, &P521),
        };
        let p = from_hex(c[0], k);
        let fp = Mont::new(p.clone());
        let three = fp.small(3);
        let a = fp.neg(&three);
        let b = fp.to_mont(&from_hex(c[1], k));
        let gx = fp.to_mont(&from_hex(c[2], k));
        let gy = fp.to_mont(&from_hex(c[3], k));
        let n = from_hex(c[4], k);
        Curve { id, fb, fp, p, a, b, gx, gy, n }
    }

    pub fn k(&self) -> usize {
        self.fp.k
    }

    pub fn infinity(&self) -> Jac {
        Jac { x: self.fp.one.clone(), y: self.fp.one.clone(), z: vec![0u64; self.k()] }
    }

    pub fn generator(&self) -> Jac {
        Jac { x: self.gx.clone(), y: self.gy.clone(), z: self.fp.one.clone() }
    }

    pub fn from_affine(&self, p: &Affine) -> Jac {
        Jac { x: self.fp.to_mont(&p.x), y: self.fp.to_mont(&p.y), z: self.fp.one.clone() }
    }

    pub fn to_affine(&self, p: &Jac) -> Option<Affine> {
        if is_zero(&p.z) {
            return None;
        }
        let f = &self.fp;
        let zi = f.inv(&p.z);
        let zi2 = f.sqr(&zi);
        let zi3 = f.mul(&zi2, &zi);
        Some(Affine { x: f.from_mont(&f.mul(&p.x, &zi2)), y: f.from_mont(&f.mul(&p.y, &zi3)) })
    }

    /// y^2 == x^3 - 3x + b for plain-integer coordinates already known to be < p
    pub fn on_curve(&self, x: &[u64], y: &[u64]) -> bool {
        let f = &self.fp;
        let xm = f.to_mont(x);
        let ym = f.to_mont(y);
        f.sqr(&ym) == self.rhs(&xm)
    }

    /// x^3 + a x + b (Montgomery in/out)
    pub fn rhs(&self, xm: &[u64]) -> Limbs {
        let f = &self.fp;
        let x2 = f.sqr(xm);
        let x3 = f.mul(&x2, xm);
        let ax = f.mul(&self.a, xm);
        f.add(&f.add(&x3, &ax), &self.b)
    }

    /// For a plain x < p returns a y with (x, y) on the curve, if one exists
    pub fn lift_x(&self, x: &[u64]) -> Option<Limbs> {
        let f = &self.fp;
        let r = self.rhs(&f.to_mont(x));
        f.sqrt_3mod4(&r).map(|y| f.from_mont(&y))
    }

    pub fn double(&self, p: &Jac) -> Jac {
        let f = &self.fp;
        if is_zero(&p.z) || is_zero(&p.y) {
            return self.infinity();
        }
        // General a: M = 3X^2 + a Z^4 ; S = 4XY^2 ; X' = M^2 - 2S ; Y' = M(S - X') - 8Y^4 ; Z' = 2YZ
        let y2 = f.sqr(&p.y);
        let s = {
            let t = f.mul(&p.x, &y2);
            let t2 = f.add(&t, &t);
            f.add(&t2, &t2)
        };
        let z2 = f.sqr(&p.z);
        let z4 = f.sqr(&z2);
        let x2 = f.sqr(&p.x);
        let m = f.add(&f.add(&f.add(&x2, &x2), &x2), &f.mul(&self.a, &z4));
        let x3 = f.sub(&f.sqr(&m), &f.add(&s, &s));
        let y4 = f.sqr(&y2);
        let y4_8 = {
            let a = f.add(&y4, &y4);
            let b = f.add(&a, &a);
            f.add(&b, &b)
        };
        let y3 = f.sub(&f.mul(&m, &f.sub(&s, &x3)), &y4_8);
        let yz = f.mul(&p.y, &p.z);
        let z3 = f.add(&yz, &yz);
        Jac { x: x3, y: y3, z: z3 }
    }

    pub fn add(&self, p: &Jac, q: &Jac) -> Jac {
        let f = &self.fp;
        if is_zero(&p.z) {
            return q.clone();
        }
        if is_zero(&q.z) {
            return p.clone();
        }
        let z1z1 = f.sqr(&p.z);
        let z2z2 = f.sqr(&q.z);
        let u1 = f.mul(&p.x, &z2z2);
        let u2 = f.mul(&q.x, &z1z1);
        let s1 = f.mul(&p.y, &f.mul(&z2z2, &q.z));
        let s2 = f.mul(&q.y, &f.mul(&z1z1, &p.z));
        if u1 == u2 {
            if s1 == s2 {
                return self.double(p);
            } else {
                return self.infinity();
            }
        }
        let h = f.sub(&u2, &u1);
        let r = f.sub(&s2, &s1);
        let h2 = f.sqr(&h);
        let h3 = f.mul(&h2, &h);
        let u1h2 = f.mul(&u1, &h2);
        let x3 = f.sub(&f.sub(&f.sqr(&r), &h3), &f.add(&u1h2, &u1h2));
        let y3 = f.sub(&f.mul(&r, &f.sub(&u1h2, &x3)), &f.mul(&s1, &h3));
        let z3 = f.mul(&h, &f.mul(&p.z, &q.z));
        Jac { x: x3, y: y3, z: z3 }
    }

    pub fn scalar_mul(&self, k: &[u64], p: &Jac) -> Jac {
        let mut acc = self.infinity();
        let n = bitlen(k);
        for i in (0..n).rev() {
            acc = self.double(&acc);
            if bit(k, i) {
                acc = self.add(&acc, p);
            }
        }
        acc
    }

    /// Public key for a scalar given as big-endian bytes (must be valid): uncompressed SEC1
    pub fn base_mul_sec1(&self, sk: &[u8]) -> Option<Vec<u8>> {
        let k = from_be(sk, self.k());
        let q = self.scalar_mul(&k, &self.generator());
        self.to_affine(&q).map(|a| self.encode(&a))
    }

    pub fn encode(&self, a: &Affine) -> Vec<u8> {
        let mut out = vec![0x04u8];
        out.extend_from_slice(&to_be(&a.x, self.fb));
        out.extend_from_slice(&to_be(&a.y, self.fb));
        out
    }

    /// The property's validity predicate for a public/encapsulated key, returning the point
    pub fn decode_valid(&self, bytes: &[u8]) -> Option<Affine> {
        if bytes.len() != 1 + 2 * self.fb || bytes[0] != 0x04 {
            return None;
        }
        // coordinates as integers with an extra guard limb so that values >= 2^(64k) cannot occur
        // (fb bytes always fit in k limbs: 32->4, 48->6, 66->9)
        let x = from_be(&bytes[1..1 + self.fb], self.k());
        let y = from_be(&bytes[1 + self.fb..], self.k());
        if cmp(&x, &self.p) != Ordering::Less || cmp(&y, &self.p) != Ordering::Less {
            return None;
        }
        if !self.on_curve(&x, &y) {
            return None;
        }
        Some(Affine { x, y })
    }

    pub fn valid_public(&self, bytes: &[u8]) -> bool {
        self.decode_valid(bytes).is_some()
    }

    /// The property's validity predicate for a private key: fixed length, 1 <= s < n
    pub fn valid_scalar(&self, bytes: &[u8]) -> bool {
        if bytes.len() != self.fb {
            return false;
        }
        let s = from_be(bytes, self.k());
        !is_zero(&s) && cmp(&s, &self.n) == Ordering::Less
    }

    /// ECDH: x-coordinate of sk * P as fb big-endian bytes
    pub fn dh(&self, sk: &[u8], pk: &[u8]) -> Option<Vec<u8>> {
        let p = self.decode_valid(pk)?;
        if !self.valid_scalar(sk) {
            return None;
        }
        let k = from_be(sk, self.k());
        let q = self.scalar_mul(&k, &self.from_affine(&p));
        self.to_affine(&q).map(|a| to_be(&a.x, self.fb))
    }

    pub fn self_check(&self) -> Result<(), String> {
        let g = self.to_affine(&self.generator()).unwrap();
        if !self.on_curve(&g.x, &g.y) {
            return Err(format!("{:?}: G not on curve", self.id));
        }
        let ng = self.scalar_mul(&self.n, &self.generator());
        if !is_zero(&ng.z) {
            return Err(format!("{:?}: n*G != O", self.id));
        }
        // (n-1)*G == -G
        let mut nm1 = self.n.clone();
        let mut one = vec![0u64; self.k()];
        one[0] = 1;
        sub_assign(&mut nm1, &one);
        let q = self.to_affine(&self.scalar_mul(&nm1, &self.generator())).unwrap();
        let mut negy = self.p.clone();
        sub_assign(&mut negy, &g.y);
        if q.x != g.x || q.y != negy {
            return Err(format!("{:?}: (n-1)*G != -G", self.id));
        }
        // 2G + G == 3G by both routes
        let g2 = self.double(&self.generator());
        let g3a = self.to_affine(&self.add(&g2, &self.generator())).unwrap();
        let mut three = vec![0u64; self.k()];
        three[0] = 3;
        let g3b = self.to_affine(&self.scalar_mul(&three, &self.generator())).unwrap();
        if g3a != g3b || !self.on_curve(&g3a.x, &g3a.y) {
            return Err(format!("{:?}: 3G mismatch", self.id));
        }
        Ok(())
    }
}

pub fn add_plain(a: &[u64], b: &[u64]) -> (Limbs, u64) {
    let mut r = a.to_vec();
    let c = add_assign(&mut r, b);
    (r, c)
}

pub fn sub_plain(a: &[u64], b: &[u64]) -> (Limbs, u64) {
    let mut r = a.to_vec();
    let c = sub_assign(&mut r, b);
    (r, c)
}

// ------------------------------------------------------------------------------------------------
// X25519 (RFC 7748 section 5)

pub struct X25519 {
    pub fp: Mont,
    a24: Limbs,
}

impl X25519 {
    pub fn new() -> X25519 {
        let p = from_hex("7fffffffffffffffffffffffffffffffffffffffffffffffffffffffffffffed", 4);
        let fp = Mont::new(p);
        let a24 = fp.small(121665);
        X25519 { fp, a24 }
    }

    pub fn clamp(k: &[u8]) -> [u8; 32] {
        let mut e = [0u8; 32];
        e.copy_from_slice(k);
        e[0] &= 248;
        e[31] &= 127;
        e[31] |= 64;
        e
    }

    /// X25519(k, u) per RFC 7748: k clamped, top bit of u masked, u reduced mod p
    pub fn x25519(&self, k: &[u8], u: &[u8]) -> [u8; 32] {
        assert_eq!(k.len(), 32);
        assert_eq!(u.len(), 32);
        let f = &self.fp;
        let e = Self::clamp(k);
        let mut ub = [0u8; 32];
        ub.copy_from_slice(u);
        ub[31] &= 127;
        let x1 = f.to_mont(&f.reduce(&from_le(&ub, 4)));
        let mut x2 = f.one.clone();
        let mut z2 = vec![0u64; 4];
        let mut x3 = x1.clone();
        let mut z3 = f.one.clone();
        let mut swap = false;
        for t in (0..255).rev() {
            let kt = (e[t / 8] >> (t % 8)) & 1 == 1;
            swap ^= kt;
            if swap {
                std::mem::swap(&mut x2, &mut x3);
                std::mem::swap(&mut z2, &mut z3);
            }
            swap = kt;
            let a = f.add(&x2, &z2);
            let aa = f.sqr(&a);
            let b = f.sub(&x2, &z2);
            let bb = f.sqr(&b);
            let e_ = f.sub(&aa, &bb);
            let c = f.add(&x3, &z3);
            let d = f.sub(&x3, &z3);
            let da = f.mul(&d, &a);
            let cb = f.mul(&c, &b);
            x3 = f.sqr(&f.add(&da, &cb));
            z3 = f.mul(&x1, &f.sqr(&f.sub(&da, &cb)));
            x2 = f.mul(&aa, &bb);
            z2 = f.mul(&e_, &f.add(&aa, &f.mul(&self.a24, &e_)));
        }
        if swap {
            std::mem::swap(&mut x2, &mut x3);
            std::mem::swap(&mut z2, &mut z3);
        }
        let r = if is_zero(&z2) { vec![0u64; 4] } else { f.from_mont(&f.mul(&x2, &f.inv(&z2))) };
        let mut out = [0u8; 32];
        out.copy_from_slice(&to_le(&r, 32));
        out
    }

    /// Montgomery ladder with an arbitrary (unclamped) 256-bit scalar: the u-coordinate of [k]P for a
    /// point P with u-coordinate `u` on the curve or its twist, None for the point at infinity.
    pub fn ladder_raw(&self, k: &[u64], u: &[u8]) -> Option<[u8; 32]> {
        let f = &self.fp;
        let x1 = f.to_mont(&f.reduce(&from_le(u, 4)));
        let mut x2 = f.one.clone();
        let mut z2 = vec![0u64; 4];
        let mut x3 = x1.clone();
        let mut z3 = f.one.clone();
        let mut swap = false;
        for t in (0..256).rev() {
            let kt = bit(k, t);
            swap ^= kt;
            if swap {
                std::mem::swap(&mut x2, &mut x3);
                std::mem::swap(&mut z2, &mut z3);
            }
            swap = kt;
            let a = f.add(&x2, &z2);
            let aa = f.sqr(&a);
            let b = f.sub(&x2, &z2);
            let bb = f.sqr(&b);
            let e_ = f.sub(&aa, &bb);
            let c = f.add(&x3, &z3);
            let d = f.sub(&x3, &z3);
            let da = f.mul(&d, &a);
            let cb = f.mul(&c, &b);
            x3 = f.sqr(&f.add(&da, &cb));
            z3 = f.mul(&x1, &f.sqr(&f.sub(&da, &cb)));
            x2 = f.mul(&aa, &bb);
            z2 = f.mul(&e_, &f.add(&aa, &f.mul(&self.a24, &e_)));
        }
        if swap {
            std::mem::swap(&mut x2, &mut x3);
            std::mem::swap(&mut z2, &mut z3);
        }
        if is_zero(&z2) {
            return None;
        }
        let r = f.from_mont(&f.mul(&x2, &f.inv(&z2)));
        let mut out = [0u8; 32];
        out.copy_from_slice(&to_le(&r, 32));
        Some(out)
    }

    /// A public key P with X25519(sk, P) == r, for a canonical u-coordinate `r` (< p, bit 255 clear)
    /// of a point of prime order on the curve (order l) or on its twist (order l'): P = [k^-1 mod q]R
    /// with k = clamp(sk). None when R has a torsion component (then no such P exists, because the
    /// clamped scalar is a multiple of the cofactor) or r < 2. The result is verified with `x25519`.
    pub fn dh_preimage(&self, sk: &[u8], r: &[u8; 32]) -> Option<[u8; 32]> {
        let f = &self.fp;
        let rl = from_le(r, 4);
        if cmp(&rl, &f.n) != Ordering::Less || (rl[0] < 2 && rl[1..].iter().all(|&x| x == 0)) {
            return None;
        }
        // curve or twist: is u^3 + 486662 u^2 + u a square?
        let um = f.to_mont(&rl);
        let u2 = f.sqr(&um);
        let v2 = f.add(&f.add(&f.mul(&u2, &um), &f.mul(&f.small(486662), &u2)), &um);
        let half = from_hex("3ffffffffffffffffffffffffffffffffffffffffffffffffffffffffffffff6", 4);
        let on_curve = f.pow(&v2, &half) == f.one;
        let q = if on_curve {
            from_hex("1000000000000000000000000000000014def9dea2f79cd65812631a5cf5d3ed", 4)
        } else {
            from_hex("1fffffffffffffffffffffffffffffffd6420c42ba10c6534fdb39cb4614581d", 4)
        };
        if self.ladder_raw(&q, r).is_some() {
            return None; // not in the prime-order subgroup
        }
        let fq = Mont::new(q);
        let k = from_le(&Self::clamp(sk), 4);
        let kinv = fq.from_mont(&fq.inv(&fq.to_mont(&fq.reduce(&k))));
        let pk = self.ladder_raw(&kinv, r)?;
        if self.x25519(sk, &pk) == *r && pk[31] & 0x80 == 0 {
            Some(pk)
        } else {
            None
        }
    }

    pub fn base(&self, k: &[u8]) -> [u8; 32] {
        let mut u = [0u8; 32];
        u[0] = 9;
        self.x25519(k, &u)
    }

    pub fn self_check(&self) -> Result<(), String> {
        // RFC 7748 section 5.2 vector 1 and section 6.1
        let k = crate::util::unhex("a546e36bf0527c9d3b16154b82465edd62144c0ac1fc5a18506a2244ba449ac4");
        let u = crate::util::unhex("e6db6867583030db3594c1a424b15f7c726624ec26b3353b10a903a6d0ab1c4c");
        let want = crate::util::unhex("c3da55379de9c6908e94ea4df28d084f32eccf03491c71f754b4075577a28552");
        if self.x25519(&k, &u)[..] != want[..] {
            return Err("X25519: RFC 7748 5.2 vector 1 mismatch".into());
        }
        let k = crate::util::unhex("4b66e9d4d1b4673c5ad22691957d6af5c11b6421e0ea01d42ca4169e7918ba0d");
        let u = crate::util::unhex("e5210f12786811d3f4b7959d0538ae2c31dbe7106fc03c3efc4cd549c715a493");
        let want = crate::util::unhex("95cbde9476e8907d7aade45cb4b873f88b595a68799fa152e6f8f7647aac7957");
        if self.x25519(&k, &u)[..] != want[..] {
            return Err("X25519: RFC 7748 5.2 vector 2 mismatch".into());
        }
        let a = crate::util::unhex("77076d0a7318a57d3c16c17251b26645df4c2f87ebc0992ab177fba51db92c2a");
        let apub = crate::util::unhex("8520f0098930a754748b7ddcb43ef75a0dbf3a0d26381af4eba4a98eaa9b4e6a");
        if self.base(&a)[..] != apub[..] {
            return Err("X25519: RFC 7748 6.1 public key mismatch".into());
        }
        Ok(())
    }
}

impl Default for X25519 {
    fn default() -> Self {
        Self::new()
    }
}
