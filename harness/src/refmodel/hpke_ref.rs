//! Independent reference model of RFC 9180 sections 4-7, transcribed from the RFC pseudocode.
//! Plain functions over byte vectors. Diffie-Hellman uses the harness's own arithmetic
//! (`arith.rs`), HKDF the hand-written `hk.rs`; only the AEAD primitives and SHA-2 are external.

use super::arith::{Curve, CurveId, X25519};
pub use super::hk::KdfId;
use aead::{AeadInPlace, KeyInit};
use serde::{Deserialize, Serialize};
use std::sync::OnceLock;

#[derive(Clone, Copy, Debug, PartialEq, Eq, Hash, Serialize, Deserialize, PartialOrd, Ord)]
pub enum KemId {
    X25519,
    P256,
    P384,
    P521,
}

impl KemId {
    pub const ALL: [KemId; 4] = [KemId::X25519, KemId::P256, KemId::P384, KemId::P521];
    pub fn id(self) -> u16 {
        match self {
            KemId::X25519 => 0x0020,
            KemId::P256 => 0x0010,
            KemId::P384 => 0x0011,
            KemId::P521 => 0x0012,
        }
    }
    pub fn from_id(id: u16) -> Option<KemId> {
        Self::ALL.iter().copied().find(|k| k.id() == id)
    }
    /// The KDF inside the KEM (RFC 9180 table 2)
    pub fn kdf(self) -> KdfId {
        match self {
            KemId::X25519 | KemId::P256 => KdfId::Sha256,
            KemId::P384 => KdfId::Sha384,
            KemId::P521 => KdfId::Sha512,
        }
    }
    pub fn nsecret(self) -> usize {
        match self {
            KemId::X25519 | KemId::P256 => 32,
            KemId::P384 => 48,
            KemId::P521 => 64,
        }
    }
    pub fn nenc(self) -> usize {
        self.npk()
    }
    pub fn npk(self) -> usize {
        match self {
            KemId::X25519 => 32,
            KemId::P256 => 65,
            KemId::P384 => 97,
            KemId::P521 => 133,
        }
    }
    pub fn nsk(self) -> usize {
        match self {
            KemId::X25519 | KemId::P256 => 32,
            KemId::P384 => 48,
            KemId::P521 => 66,
        }
    }
    pub fn bitmask(self) -> u8 {
        match self {
            KemId::P521 => 0x01,
            _ => 0xff,
        }
    }
    pub fn curve(self) -> Option<&'static Curve> {
        static C256: OnceLock<Curve> = OnceLock::new();
        static C384: OnceLock<Curve> = OnceLock::new();
        static C521: OnceLock<Curve> = OnceLock::new();
        match self {
            KemId::X25519 => None,
            KemId::P256 => Some(C256.get_or_init(|| Curve::new(CurveId::P256))),
            KemId::P384 => Some(C384.get_or_init(|| Curve::new(CurveId::P384))),
            KemId::P521 => Some(C521.get_or_init(|| Curve::new(CurveId::P521))),
        }
    }
    pub fn name(self) -> &'static str {
        match self {
            KemId::X25519 => "X25519",
            KemId::P256 => "P256",
            KemId::P384 => "P384",
            KemId::P521 => "P521",
        }
    }
}

pub fn x25519() -> &'static X25519 {
    static X: OnceLock<X25519> = OnceLock::new();
    X.get_or_init(X25519::new)
}

#[derive(Clone, Copy, Debug, PartialEq, Eq, Hash, Serialize, Deserialize, PartialOrd, Ord)]
pub enum AeadId {
    Aes128,
    Aes256,
    ChaCha,
    Export,
}

impl AeadId {
    pub const ALL: [AeadId; 4] = [AeadId::Aes128, AeadId::Aes256, AeadId::ChaCha, AeadId::Export];
    pub const SEALING: [AeadId; 3] = [AeadId::Aes128, AeadId::Aes256, AeadId::ChaCha];
    pub fn id(self) -> u16 {
        match self {
            AeadId::Aes128 => 1,
            AeadId::Aes256 => 2,
            AeadId::ChaCha => 3,
            AeadId::Export => 0xffff,
        }
    }
    pub fn from_id(id: u16) -> Option<AeadId> {
        Self::ALL.iter().copied().find(|k| k.id() == id)
    }
    pub fn nk(self) -> usize {
        match self {
            AeadId::Aes128 => 16,
            AeadId::Aes256 | AeadId::ChaCha => 32,
            AeadId::Export => 0,
        }
    }
    pub fn nn(self) -> usize {
        match self {
            AeadId::Export => 0,
            _ => 12,
        }
    }
    pub fn nt(self) -> usize {
        match self {
            AeadId::Export => 0,
            _ => 16,
        }
    }
    pub fn sealing(self) -> bool {
        self != AeadId::Export
    }
    pub fn name(self) -> &'static str {
        match self {
            AeadId::Aes128 => "Aes128",
            AeadId::Aes256 => "Aes256",
            AeadId::ChaCha => "ChaCha",
            AeadId::Export => "Export",
        }
    }
}

#[derive(Clone, Copy, Debug, PartialEq, Eq, Hash, Serialize, Deserialize, PartialOrd, Ord)]
pub struct Suite {
    pub kem: KemId,
    pub kdf: KdfId,
    pub aead: AeadId,
}

impl PartialOrd for KdfId {
    fn partial_cmp(&self, o: &Self) -> Option<std::cmp::Ordering> {
        Some(self.cmp(o))
    }
}
impl Ord for KdfId {
    fn cmp(&self, o: &Self) -> std::cmp::Ordering {
        self.id().cmp(&o.id())
    }
}

impl Suite {
    pub fn all48() -> Vec<Suite> {
        let mut v = Vec::new();
        for kem in KemId::ALL {
            for kdf in KdfId::ALL {
                for aead in AeadId::ALL {
                    v.push(Suite { kem, kdf, aead });
                }
            }
        }
        v
    }
    pub fn sealing36() -> Vec<Suite> {
        Self::all48().into_iter().filter(|s| s.aead.sealing()).collect()
    }
    pub fn label(&self) -> String {
        format!("{}/{:?}/{}", self.kem.name(), self.kdf, self.aead.name())
    }
}

fn i2osp2(v: u16) -> [u8; 2] {
    [(v >> 8) as u8, v as u8]
}

pub fn kem_suite_id(kem: KemId) -> Vec<u8> {
    let mut v = b"KEM".to_vec();
    v.extend_from_slice(&i2osp2(kem.id()));
    v
}

pub fn hpke_suite_id(s: Suite) -> Vec<u8> {
    let mut v = b"HPKE".to_vec();
    v.extend_from_slice(&i2osp2(s.kem.id()));
    v.extend_from_slice(&i2osp2(s.kdf.id()));
    v.extend_from_slice(&i2osp2(s.aead.id()));
    v
}

// ------------------------------------------------------------------------------------------------
// Section 7.1: DH groups

/// pk(sk). None if sk is not a valid private key for the group (NIST: outside [1, n-1]).
pub fn pk_of(kem: KemId, sk: &[u8]) -> Option<Vec<u8>> {
    if sk.len() != kem.nsk() {
        return None;
    }
    match kem.curve() {
        None => Some(x25519().base(sk).to_vec()),
        Some(c) => {
            if !c.valid_scalar(sk) {
                return None;
            }
            c.base_mul_sec1(sk)
        }
    }
}

/// DH(sk, pk) with the validation of section 7.1.4: None when pk is not a valid public key or
/// (X25519) the result is all-zero.
pub fn dh(kem: KemId, sk: &[u8], pk: &[u8]) -> Option<Vec<u8>> {
    match kem.curve() {
        None => {
            if sk.len() != 32 || pk.len() != 32 {
                return None;
            }
            let r = x25519().x25519(sk, pk);
            if r.iter().all(|&b| b == 0) {
                None
            } else {
                Some(r.to_vec())
            }
        }
        Some(c) => c.dh(sk, pk),
    }
}

/// DeriveKeyPair (section 7.1.3). Returns (sk, pk, counter used).
pub fn derive_key_pair_ctr(kem: KemId, ikm: &[u8]) -> (Vec<u8>, Vec<u8>, u32) {
    let sid = kem_suite_id(kem);
    let kdf = kem.kdf();
    let dkp_prk = kdf.labeled_extract(&sid, b"", b"dkp_prk", ikm);
    match kem.curve() {
        None => {
            let sk = kdf.labeled_expand(&sid, &dkp_prk, b"sk", b"", 32).unwrap();
            let pk = x25519().base(&sk).to_vec();
            (sk, pk, 0)
        }
        Some(c) => {
            let mut counter: u32 = 0;
            loop {
                if counter > 255 {
                    panic!("DeriveKeyPairError");
                }
                let mut bytes = kdf
                    .labeled_expand(&sid, &dkp_prk, b"candidate", &[counter as u8], kem.nsk())
                    .unwrap();
                bytes[0] &= kem.bitmask();
                if c.valid_scalar(&bytes) {
                    let pk = c.base_mul_sec1(&bytes).unwrap();
                    return (bytes, pk, counter);
                }
                counter += 1;
            }
        }
    }
}

pub fn derive_key_pair(kem: KemId, ikm: &[u8]) -> (Vec<u8>, Vec<u8>) {
    let (sk, pk, _) = derive_key_pair_ctr(kem, ikm);
    (sk, pk)
}

// ------------------------------------------------------------------------------------------------
// Section 4.1: DHKEM

fn extract_and_expand(kem: KemId, dh: &[u8], kem_context: &[u8]) -> Vec<u8> {
    let sid = kem_suite_id(kem);
    let kdf = kem.kdf();
    let eae_prk = kdf.labeled_extract(&sid, b"", b"eae_prk", dh);
    kdf.labeled_expand(&sid, &eae_prk, b"shared_secret", kem_context, kem.nsecret()).unwrap()
}

/// Encap(pkR) with the ephemeral key pair DeriveKeyPair(ikm_e). Returns (shared_secret, enc).
pub fn encap(kem: KemId, pk_r: &[u8], ikm_e: &[u8]) -> Option<(Vec<u8>, Vec<u8>)> {
    let (sk_e, pk_e) = derive_key_pair(kem, ikm_e);
    let dh_ = dh(kem, &sk_e, pk_r)?;
    let enc = pk_e;
    let mut kem_context = enc.clone();
    kem_context.extend_from_slice(pk_r);
    Some((extract_and_expand(kem, &dh_, &kem_context), enc))
}

pub fn decap(kem: KemId, enc: &[u8], sk_r: &[u8]) -> Option<Vec<u8>> {
    let dh_ = dh(kem, sk_r, enc)?;
    let pk_rm = pk_of(kem, sk_r)?;
    let mut kem_context = enc.to_vec();
    kem_context.extend_from_slice(&pk_rm);
    Some(extract_and_expand(kem, &dh_, &kem_context))
}

/// AuthEncap(pkR, skS). `pk_s` is the sender public key that goes into kem_context: the RFC uses
/// pk(skS); passing it explicitly lets callers model an API that takes the pair unchecked.
pub fn auth_encap(
    kem: KemId,
    pk_r: &[u8],
    sk_s: &[u8],
    pk_s: &[u8],
    ikm_e: &[u8],
) -> Option<(Vec<u8>, Vec<u8>)> {
    let (sk_e, pk_e) = derive_key_pair(kem, ikm_e);
    let mut dh_ = dh(kem, &sk_e, pk_r)?;
    dh_.extend_from_slice(&dh(kem, sk_s, pk_r)?);
    let enc = pk_e;
    let mut kem_context = enc.clone();
    kem_context.extend_from_slice(pk_r);
    kem_context.extend_from_slice(pk_s);
    Some((extract_and_expand(kem, &dh_, &kem_context), enc))
}

pub fn auth_decap(kem: KemId, enc: &[u8], sk_r: &[u8], pk_s: &[u8]) -> Option<Vec<u8>> {
    let mut dh_ = dh(kem, sk_r, enc)?;
    dh_.extend_from_slice(&dh(kem, sk_r, pk_s)?);
    let pk_rm = pk_of(kem, sk_r)?;
    let mut kem_context = enc.to_vec();
    kem_context.extend_from_slice(&pk_rm);
    kem_context.extend_from_slice(pk_s);
    Some(extract_and_expand(kem, &dh_, &kem_context))
}

// ------------------------------------------------------------------------------------------------
// Section 5.1: key schedule

#[derive(Clone, Debug, PartialEq, Eq)]
pub struct KeySched {
    pub suite: Suite,
    pub key_schedule_context: Vec<u8>,
    pub secret: Vec<u8>,
    pub key: Vec<u8>,
    pub base_nonce: Vec<u8>,
    pub exporter_secret: Vec<u8>,
}

/// KeySchedule<ROLE>(mode, shared_secret, info, psk, psk_id), without VerifyPSKInputs (callers
/// decide whether the inputs are in the RFC's domain).
pub fn key_schedule(
    suite: Suite,
    mode: u8,
    shared_secret: &[u8],
    info: &[u8],
    psk: &[u8],
    psk_id: &[u8],
) -> KeySched {
    let sid = hpke_suite_id(suite);
    let kdf = suite.kdf;
    let psk_id_hash = kdf.labeled_extract(&sid, b"", b"psk_id_hash", psk_id);
    let info_hash = kdf.labeled_extract(&sid, b"", b"info_hash", info);
    let mut ksc = vec![mode];
    ksc.extend_from_slice(&psk_id_hash);
    ksc.extend_from_slice(&info_hash);
    let secret = kdf.labeled_extract(&sid, shared_secret, b"secret", psk);
    let key = kdf.labeled_expand(&sid, &secret, b"key", &ksc, suite.aead.nk()).unwrap();
    let base_nonce = kdf.labeled_expand(&sid, &secret, b"base_nonce", &ksc, suite.aead.nn()).unwrap();
    let exporter_secret = kdf.labeled_expand(&sid, &secret, b"exp", &ksc, kdf.nh()).unwrap();
    KeySched { suite, key_schedule_context: ksc, secret, key, base_nonce, exporter_secret }
}

/// VerifyPSKInputs (section 5.1): true when the inputs are consistent
pub fn verify_psk_inputs(mode: u8, psk: &[u8], psk_id: &[u8]) -> bool {
    let got_psk = !psk.is_empty();
    let got_psk_id = !psk_id.is_empty();
    if got_psk != got_psk_id {
        return false;
    }
    let psk_mode = mode == 1 || mode == 3;
    !(got_psk && !psk_mode) && !(!got_psk && psk_mode)
}

/// ComputeNonce(seq): base_nonce xor I2OSP(seq, Nn)
pub fn compute_nonce(base_nonce: &[u8], seq: u64) -> Vec<u8> {
    let nn = base_nonce.len();
    let mut out = base_nonce.to_vec();
    for i in 0..8.min(nn) {
        out[nn - 1 - i] ^= (seq >> (8 * i)) as u8;
    }
    out
}

/// AEAD Seal: ciphertext || tag
pub fn aead_seal(aead: AeadId, key: &[u8], nonce: &[u8], aad: &[u8], pt: &[u8]) -> Vec<u8> {
    let mut buf = pt.to_vec();
    let tag: Vec<u8> = match aead {
        AeadId::Aes128 => aes_gcm::Aes128Gcm::new_from_slice(key)
            .unwrap()
            .encrypt_in_place_detached(nonce.into(), aad, &mut buf)
            .unwrap()
            .to_vec(),
        AeadId::Aes256 => aes_gcm::Aes256Gcm::new_from_slice(key)
            .unwrap()
            .encrypt_in_place_detached(nonce.into(), aad, &mut buf)
            .unwrap()
            .to_vec(),
        AeadId::ChaCha => chacha20poly1305::ChaCha20Poly1305::new_from_slice(key)
            .unwrap()
            .encrypt_in_place_detached(nonce.into(), aad, &mut buf)
            .unwrap()
            .to_vec(),
        AeadId::Export => panic!("export-only AEAD cannot seal"),
    };
    buf.extend_from_slice(&tag);
    buf
}

/// AEAD Open of ciphertext || tag
pub fn aead_open(aead: AeadId, key: &[u8], nonce: &[u8], aad: &[u8], ct: &[u8]) -> Option<Vec<u8>> {
    if ct.len() < aead.nt() {
        return None;
    }
    let (body, tag) = ct.split_at(ct.len() - aead.nt());
    let mut buf = body.to_vec();
    let r = match aead {
        AeadId::Aes128 => aes_gcm::Aes128Gcm::new_from_slice(key)
            .unwrap()
            .decrypt_in_place_detached(nonce.into(), aad, &mut buf, tag.into()),
        AeadId::Aes256 => aes_gcm::Aes256Gcm::new_from_slice(key)
            .unwrap()
            .decrypt_in_place_detached(nonce.into(), aad, &mut buf, tag.into()),
        AeadId::ChaCha => chacha20poly1305::ChaCha20Poly1305::new_from_slice(key)
            .unwrap()
            .decrypt_in_place_detached(nonce.into(), aad, &mut buf, tag.into()),
        AeadId::Export => panic!("export-only AEAD cannot open"),
    };
    r.ok().map(|_| buf)
}

impl KeySched {
    /// ContextS.Seal at sequence number `seq`
    pub fn seal(&self, seq: u64, aad: &[u8], pt: &[u8]) -> Vec<u8> {
        aead_seal(self.suite.aead, &self.key, &compute_nonce(&self.base_nonce, seq), aad, pt)
    }
    pub fn open(&self, seq: u64, aad: &[u8], ct: &[u8]) -> Option<Vec<u8>> {
        aead_open(self.suite.aead, &self.key, &compute_nonce(&self.base_nonce, seq), aad, ct)
    }
    /// Context.Export; None when L > 255*Nh
    pub fn export(&self, exporter_context: &[u8], l: usize) -> Option<Vec<u8>> {
        if l > 255 * self.suite.kdf.nh() {
            return None;
        }
        self.suite.kdf.labeled_expand(
            &hpke_suite_id(self.suite),
            &self.exporter_secret,
            b"sec",
            exporter_context,
            l,
        )
    }
}

/// The sender-side inputs of one HPKE session, as bytes
#[derive(Clone, Debug)]
pub struct SenderIn<'a> {
    pub suite: Suite,
    pub mode: u8,
    pub pk_r: &'a [u8],
    pub info: &'a [u8],
    pub psk: &'a [u8],
    pub psk_id: &'a [u8],
    pub sk_s: &'a [u8],
    pub pk_s: &'a [u8],
    pub ikm_e: &'a [u8],
}

/// Encap / AuthEncap with an explicitly chosen ephemeral private key (RFC 9180 leaves the way skE is
/// produced to the sender; any valid private key gives a message the receiver must accept)
pub fn encap_with_sk(kem: KemId, pk_r: &[u8], sk_e: &[u8], auth: Option<(&[u8], &[u8])>) -> Option<(Vec<u8>, Vec<u8>)> {
    let enc = pk_of(kem, sk_e)?;
    let mut dh_ = dh(kem, sk_e, pk_r)?;
    let mut kem_context = enc.clone();
    kem_context.extend_from_slice(pk_r);
    if let Some((sk_s, pk_s)) = auth {
        dh_.extend_from_slice(&dh(kem, sk_s, pk_r)?);
        kem_context.extend_from_slice(pk_s);
    }
    Some((extract_and_expand(kem, &dh_, &kem_context), enc))
}

/// SetupS with an explicitly chosen ephemeral private key
pub fn setup_s_with_sk(i: &SenderIn, sk_e: &[u8]) -> Option<(Vec<u8>, KeySched)> {
    let auth = if i.mode & 2 != 0 { Some((i.sk_s, i.pk_s)) } else { None };
    let (ss, enc) = encap_with_sk(i.suite.kem, i.pk_r, sk_e, auth)?;
    let (psk, psk_id): (&[u8], &[u8]) = if i.mode & 1 != 0 { (i.psk, i.psk_id) } else { (b"", b"") };
    Some((enc, key_schedule(i.suite, i.mode, &ss, i.info, psk, psk_id)))
}

/// A sender that does NOT hold skS but produces an Auth / AuthPsk transcript anyway, from public
/// values and its own ephemeral key only (C08). `term` selects what stands in for DH(skS, pkR):
/// 0 nothing, 1 Ndh zero bytes (the value DH(skR, pkS) takes when pkS is of small order), 2 nothing
/// and pkS left out of kem_context (a Base encapsulation under an Auth mode byte), 3 DH(skE, pkS)
/// (computable without any secret of the claimed sender), 4 the ephemeral DH repeated.
/// No receiver following RFC 9180 derives the same key schedule for any expected pkS.
pub fn forged_auth_setup_s(i: &SenderIn, sk_e: &[u8], term: u8) -> Option<(Vec<u8>, KeySched)> {
    let kem = i.suite.kem;
    let enc = pk_of(kem, sk_e)?;
    let eph = dh(kem, sk_e, i.pk_r)?;
    let mut dh_ = eph.clone();
    let mut kem_context = enc.clone();
    kem_context.extend_from_slice(i.pk_r);
    match term {
        0 => kem_context.extend_from_slice(i.pk_s),
        1 => {
            dh_.extend_from_slice(&vec![0u8; eph.len()]);
            kem_context.extend_from_slice(i.pk_s);
        }
        2 => {}
        3 => {
            // a small-order / invalid pkS has no such value: fall back to zeros, what the ladder returns
            let t = dh(kem, sk_e, i.pk_s).unwrap_or_else(|| vec![0u8; eph.len()]);
            dh_.extend_from_slice(&t);
            kem_context.extend_from_slice(i.pk_s);
        }
        _ => {
            dh_.extend_from_slice(&eph);
            kem_context.extend_from_slice(i.pk_s);
        }
    }
    let ss = extract_and_expand(kem, &dh_, &kem_context);
    let (psk, psk_id): (&[u8], &[u8]) = if i.mode & 1 != 0 { (i.psk, i.psk_id) } else { (b"", b"") };
    Some((enc, key_schedule(i.suite, i.mode, &ss, i.info, psk, psk_id)))
}

/// SetupBaseS / SetupPSKS / SetupAuthS / SetupAuthPSKS
pub fn setup_s(i: &SenderIn) -> Option<(Vec<u8>, KeySched)> {
    let (ss, enc) = if i.mode & 2 != 0 {
        auth_encap(i.suite.kem, i.pk_r, i.sk_s, i.pk_s, i.ikm_e)?
    } else {
        encap(i.suite.kem, i.pk_r, i.ikm_e)?
    };
    let (psk, psk_id): (&[u8], &[u8]) = if i.mode & 1 != 0 { (i.psk, i.psk_id) } else { (b"", b"") };
    Some((enc, key_schedule(i.suite, i.mode, &ss, i.info, psk, psk_id)))
}

#[derive(Clone, Debug)]
pub struct ReceiverIn<'a> {
    pub suite: Suite,
    pub mode: u8,
    pub sk_r: &'a [u8],
    pub enc: &'a [u8],
    pub info: &'a [u8],
    pub psk: &'a [u8],
    pub psk_id: &'a [u8],
    pub pk_s: &'a [u8],
}

pub fn setup_r(i: &ReceiverIn) -> Option<KeySched> {
    let ss = if i.mode & 2 != 0 {
        auth_decap(i.suite.kem, i.enc, i.sk_r, i.pk_s)?
    } else {
        decap(i.suite.kem, i.enc, i.sk_r)?
    };
    let (psk, psk_id): (&[u8], &[u8]) = if i.mode & 1 != 0 { (i.psk, i.psk_id) } else { (b"", b"") };
    Some(key_schedule(i.suite, i.mode, &ss, i.info, psk, psk_id))
}
