pub mod arith;
pub mod hk;
pub mod hpke_ref;
pub mod selfcheck;
