//! C03 - DHKEM conformance: DeriveKeyPair, key generation, Encap/Decap and their Auth variants
//! against the reference model (own HKDF + own curve arithmetic).

use crate::corpus;
use crate::engine::{Obs, Property, Tier, Verdict};
use crate::ensure;
use crate::gen;
use crate::refmodel::arith::X25519;
use crate::refmodel::hpke_ref::{self as r, KemId};
use crate::suite::{self, Fail, ScriptRng};
use crate::util::{hex_short, Bytes};
use proptest::prelude::*;
use serde::{Deserialize, Serialize};

#[derive(Clone, Debug, Serialize, Deserialize)]
pub enum Case {
    Derive { kem: KemId, ikm: Bytes },
    Gen { kem: KemId, stream: Bytes },
    Encap { kem: KemId, auth: bool, ikm_r: Bytes, ikm_s: Bytes, stream: Bytes },
    /// decapsulation of / encapsulation to an unusual but valid peer key (constructed points: small
    /// x, negated, corner-on-curve; for X25519 arbitrary 32 bytes incl. non-canonical u): the shared
    /// secret must be the reference's
    PeerKey { kem: KemId, ikm_own: Bytes, peer: Bytes, stream: Bytes },
    /// NIST curves: the peer key is d^-1 * (0, sqrt(b)) for the own private key d, so that the
    /// Diffie-Hellman x-coordinate is all-zero - a perfectly valid exchange on these curves (only
    /// X25519 has an all-zero rule)
    ZeroXDh { kem: KemId, ikm_own: Bytes, stream: Bytes },
    /// golden input whose first P-256 candidate is >= n (index into corpus/p256_counter1.json)
    Counter1 { index: usize },
    /// ikmR/ikmS/ikmE -> key pairs of a committed vector ("anchors" or "golden")
    VectorKeys { file: String, index: usize },
}

pub struct P;

fn sk_equal(kem: KemId, a: &[u8], b: &[u8]) -> bool {
    if kem == KemId::X25519 {
        a.len() == 32 && b.len() == 32 && X25519::clamp(a) == X25519::clamp(b)
    } else {
        a == b
    }
}

fn check_derive(kem: KemId, ikm: &[u8], obs: &mut Obs, expect_sk: Option<&[u8]>, expect_pk: Option<&[u8]>) -> Verdict {
    let d = suite::get_kem(kem);
    let (sk, pk) = d.derive_keypair(ikm);
    let (rsk, rpk, ctr) = r::derive_key_pair_ctr(kem, ikm);
    obs.label(format!("derive:{}:counter{}", kem.name(), ctr));
    obs.inner_checks += 4;
    ensure!(sk.len() == kem.nsk() && pk.len() == kem.npk(), "C03/derive/sizes", "{}: derive_keypair sizes sk={} pk={}, RFC Nsk={} Npk={}", kem.name(), sk.len(), pk.len(), kem.nsk(), kem.npk());
    ensure!(
        sk_equal(kem, &sk, &rsk),
        "C03/derive/sk",
        "{}: derive_keypair(ikm len {}) private key {} differs from RFC 9180 DeriveKeyPair {} (retry counter {})",
        kem.name(), ikm.len(), hex_short(&sk), hex_short(&rsk), ctr
    );
    ensure!(pk == rpk, "C03/derive/pk", "{}: derive_keypair(ikm len {}) public key {} differs from the reference {}", kem.name(), ikm.len(), hex_short(&pk), hex_short(&rpk));
    match d.sk_to_pk(&sk) {
        Ok(p2) => ensure!(p2 == pk, "C03/derive/sk_to_pk", "{}: sk_to_pk(sk) {} is not the derived public key {}", kem.name(), hex_short(&p2), hex_short(&pk)),
        Err(f) => return Verdict::fail("C03/derive/sk-reparse", format!("{}: the derived private key does not re-parse: {:?}", kem.name(), f)),
    }
    if let Some(e) = expect_sk {
        ensure!(sk_equal(kem, &sk, e), "C03/derive/sk", "{}: private key {} differs from the committed vector {}", kem.name(), hex_short(&sk), hex_short(e));
    }
    if let Some(e) = expect_pk {
        ensure!(pk == e, "C03/derive/pk", "{}: public key {} differs from the committed vector {}", kem.name(), hex_short(&pk), hex_short(e));
    }
    Verdict::Pass
}

fn check_gen(kem: KemId, stream: &[u8], obs: &mut Obs) -> Verdict {
    let d = suite::get_kem(kem);
    let mut rng = ScriptRng::new(stream);
    let (sk, pk) = d.gen_keypair(&mut rng);
    obs.inner_checks += 3;
    ensure!(rng.drawn() == kem.nsk(), "C03/gen/rng-draw", "{}: gen_keypair drew {} bytes, Nsk is {}", kem.name(), rng.drawn(), kem.nsk());
    let ikm = ScriptRng::peek(stream, kem.nsk());
    let (rsk, rpk) = r::derive_key_pair(kem, &ikm);
    ensure!(sk_equal(kem, &sk, &rsk) && pk == rpk, "C03/gen/not-derive-of-drawn", "{}: gen_keypair differs from DeriveKeyPair(the {} bytes drawn): sk {} vs {}, pk {} vs {}", kem.name(), kem.nsk(), hex_short(&sk), hex_short(&rsk), hex_short(&pk), hex_short(&rpk));
    Verdict::Pass
}

fn check_encap(kem: KemId, auth: bool, ikm_r: &[u8], ikm_s: &[u8], stream: &[u8], obs: &mut Obs) -> Verdict {
    let d = suite::get_kem(kem);
    let nsk = kem.nsk();
    let (sk_r, pk_r) = r::derive_key_pair(kem, ikm_r);
    let (sk_s, pk_s) = r::derive_key_pair(kem, ikm_s);
    let ikm_e = ScriptRng::peek(stream, nsk);
    let reference = if auth { r::auth_encap(kem, &pk_r, &sk_s, &pk_s, &ikm_e) } else { r::encap(kem, &pk_r, &ikm_e) };
    let (rss, renc) = match reference {
        Some(x) => x,
        None => return Verdict::skip("reference Encap rejects the inputs"),
    };
    let mut rng = ScriptRng::new(stream);
    let sender = if auth { Some((&sk_s[..], &pk_s[..])) } else { None };
    let (ss, enc) = match d.encap(&pk_r, sender, &mut rng) {
        Ok(x) => x,
        Err(Fail::Construct(s, e)) => return Verdict::skip(format!("construction_failed({}:{:?})", s, e)),
        Err(Fail::Hpke(e)) => return Verdict::fail("C03/encap/error", format!("{}: encap failed with {:?} on valid keys", kem.name(), e)),
    };
    obs.inner_checks += 5;
    ensure!(rng.drawn() == nsk, "C03/encap/rng-draw", "{}: encap drew {} bytes, Nsk is {}", kem.name(), rng.drawn(), nsk);
    ensure!(enc == renc, "C03/encap/enc", "{} auth={}: encapsulated key {} differs from RFC 9180 {}", kem.name(), auth, hex_short(&enc), hex_short(&renc));
    ensure!(ss.len() == kem.nsecret(), "C03/encap/nsecret", "{}: shared secret has {} bytes, Nsecret is {}", kem.name(), ss.len(), kem.nsecret());
    ensure!(ss == rss, "C03/encap/shared-secret", "{} auth={}: encap shared secret {} differs from RFC 9180 {}", kem.name(), auth, hex_short(&ss), hex_short(&rss));
    // decap of hpke's own enc
    let pks = if auth { Some(&pk_s[..]) } else { None };
    match d.decap(&sk_r, pks, &enc) {
        Ok(ss2) => ensure!(ss2 == rss, "C03/decap/shared-secret", "{} auth={}: decap shared secret {} differs from RFC 9180 {}", kem.name(), auth, hex_short(&ss2), hex_short(&rss)),
        Err(f) => return Verdict::fail("C03/decap/error", format!("{}: decap of an honest encapsulation failed: {:?}", kem.name(), f)),
    }
    // decap of a reference-produced encapsulation with a different ephemeral key
    let ikm_e2 = &ScriptRng::peek(stream, 2 * nsk)[nsk..];
    let reference2 = if auth { r::auth_encap(kem, &pk_r, &sk_s, &pk_s, ikm_e2) } else { r::encap(kem, &pk_r, ikm_e2) };
    if let Some((rss2, renc2)) = reference2 {
        match d.decap(&sk_r, pks, &renc2) {
            Ok(ss3) => ensure!(ss3 == rss2, "C03/decap/shared-secret", "{} auth={}: decap of a reference encapsulation gives {} instead of {}", kem.name(), auth, hex_short(&ss3), hex_short(&rss2)),
            Err(f) => return Verdict::fail("C03/decap/error", format!("{}: decap of a reference encapsulation failed: {:?}", kem.name(), f)),
        }
    }
    Verdict::Pass
}

fn check_peer(kem: KemId, ikm_own: &[u8], peer: &[u8], stream: &[u8], obs: &mut Obs) -> Verdict {
    let d = suite::get_kem(kem);
    let (sk, _) = gen::ref_keypair(kem, ikm_own);
    // receiver role: peer is the encapsulated key
    if let Some(want) = r::decap(kem, peer, &sk) {
        obs.inner_checks += 1;
        match d.decap(&sk, None, peer) {
            Ok(ss) => ensure!(ss == want, "C03/decap/shared-secret", "{}: decap of the valid encapsulated key {} gives {} instead of the RFC 9180 value {}", kem.name(), hex_short(peer), hex_short(&ss), hex_short(&want)),
            Err(Fail::Construct(s, e)) => return Verdict::skip(format!("construction_failed({}:{:?})", s, e)),
            Err(Fail::Hpke(e)) => return Verdict::fail("C03/decap/error", format!("{}: decap of the valid encapsulated key {} failed with {:?}", kem.name(), hex_short(peer), e)),
        }
    } else {
        return Verdict::skip("reference rejects the peer key (C09/C10 own that)");
    }
    // sender role: peer is the recipient public key
    let ikm_e = ScriptRng::peek(stream, kem.nsk());
    if let Some((want_ss, want_enc)) = r::encap(kem, peer, &ikm_e) {
        obs.inner_checks += 1;
        let mut rng = ScriptRng::new(stream);
        match d.encap(peer, None, &mut rng) {
            Ok((ss, enc)) => ensure!(ss == want_ss && enc == want_enc, "C03/encap/shared-secret", "{}: encap to the valid recipient key {} gives ({}, {}) instead of the RFC 9180 values ({}, {})", kem.name(), hex_short(peer), hex_short(&ss), hex_short(&enc), hex_short(&want_ss), hex_short(&want_enc)),
            Err(Fail::Construct(s, e)) => return Verdict::skip(format!("construction_failed({}:{:?})", s, e)),
            Err(Fail::Hpke(e)) => return Verdict::fail("C03/encap/error", format!("{}: encap to the valid recipient key {} failed with {:?}", kem.name(), hex_short(peer), e)),
        }
    }
    Verdict::Pass
}

/// The peer key whose DH with private key `sk` has x-coordinate zero: (sk^-1 mod n) * (0, sqrt(b))
fn zero_x_peer(kem: KemId, sk: &[u8]) -> Option<Vec<u8>> {
    use crate::refmodel::arith::{from_be, Affine, Mont};
    let c = kem.curve()?;
    let zero = vec![0u64; c.k()];
    let y = c.lift_x(&zero)?;
    let p0 = c.from_affine(&Affine { x: zero, y });
    let fnm = Mont::new(c.n.clone());
    let d = from_be(sk, c.k());
    let dinv = fnm.from_mont(&fnm.inv(&fnm.to_mont(&d)));
    let q = c.to_affine(&c.scalar_mul(&dinv, &p0))?;
    Some(c.encode(&q))
}

/// Valid but unusual peer keys
fn peer_keys(kem: KemId, seed: u64) -> Vec<Vec<u8>> {
    match kem.curve() {
        Some(c) => {
            let mut v: Vec<Vec<u8>> = super::c09::constructed_public(kem, seed).into_iter().filter(|(h, b)| !h.starts_with("tag-byte") && c.valid_public(b)).map(|(_, b)| b).collect();
            // k*G for tiny k (the generator itself is an ephemeral key with private scalar 1) and -G
            for k in 1..=3u8 {
                let mut sk = vec![0u8; c.fb];
                sk[c.fb - 1] = k;
                if let Some(pk) = c.base_mul_sec1(&sk) {
                    if k == 1 {
                        if let Some(n) = super::c07::same_dh_encoding(kem, &pk) {
                            v.push(n);
                        }
                    }
                    v.push(pk);
                }
            }
            v
        }
        None => {
            let mut v: Vec<Vec<u8>> = (0..6u64).map(|i| gen::fill(32, 9, seed ^ i)).collect();
            // the base point u = 9 (an ephemeral key with private scalar "1") and small multiples' neighbours
            for u0 in [9u8, 3, 4, 5] {
                let mut b = vec![0u8; 32];
                b[0] = u0;
                v.push(b);
            }
            // non-canonical u (>= p) and bit 255 set: RFC 7748 masks / reduces them
            let mut a = vec![0xffu8; 32];
            a[0] = 0xf0;
            v.push(a.clone());
            a[31] = 0x7f;
            v.push(a);
            let mut b = gen::fill(32, 9, seed ^ 99);
            b[31] |= 0x80;
            v.push(b);
            let mut two = vec![0u8; 32];
            two[0] = 2;
            v.push(two);
            v
        }
    }
}

impl Property for P {
    type Case = Case;
    fn id(&self) -> &'static str {
        "C03"
    }
    fn rule(&self) -> String {
        "Generated: per KEM, ikm of any length 0..=300 (derive), RNG streams (gen_keypair), recipient/sender/ephemeral inputs x {plain, auth} (encap/decap); decap of / encap to unusual valid peer keys (points lifted from small x, negated points, corner x values on the curve; X25519 non-canonical u and bit 255; the generator and tiny multiples of it; for the NIST curves the peer d^-1*(0, sqrt(b)) whose DH x-coordinate is zero); ephemeral randomness that reproduces a static key of the exchange (enc == pkR / pkS), identity key pair equal to the recipient's. \
         Swept: every ikm length 0..=300 and 65536 for each of 4 KEMs; 4 KEMs x {plain, auth} cells; the P-256 retry-path golden inputs; key pairs of all committed vectors. \
         Oracle: reference DeriveKeyPair / Encap / Decap (own HKDF, own curve arithmetic; X25519 private keys compared up to RFC 7748 clamping). \
         Non-trivial: an auth variant, or ikm length != 32, or a retry-path input."
            .into()
    }
    fn assumptions(&self) -> Vec<String> {
        vec![
            "sha2 is correct; the arithmetic oracle is self-checked (n*G=O, RFC 7748 vectors, curves.json) at start-up".into(),
            "DeriveKeyPair retries for P-384/P-521 (probability < 2^-190) and a third P-256 candidate are unreachable".into(),
        ]
    }
    fn prelude(&self, _tier: Tier) -> Result<Vec<String>, String> {
        let rep = crate::refmodel::selfcheck::oracle_selfcheck(4)?;
        // the golden inputs must take the retry path in the reference
        for (i, e) in corpus::p256_counter1()?.iter().enumerate() {
            let (sk, _, ctr) = r::derive_key_pair_ctr(KemId::P256, &e.ikm);
            if ctr != 1 || sk != e.expected_sk.0 {
                return Err(format!("p256_counter1[{}]: reference counter {} sk {}", i, ctr, hex_short(&sk)));
            }
        }
        Ok(vec![format!("oracle self-check: {} anchors, {} golden vectors", rep.anchors, rep.golden)])
    }
    fn strategy(&self, _tier: Tier) -> BoxedStrategy<Case> {
        prop_oneof![
            4 => (gen::kem(), gen::ikm()).prop_map(|(kem, ikm)| Case::Derive { kem, ikm }),
            1 => (gen::kem(), gen::bytes(4200)).prop_map(|(kem, ikm)| Case::Derive { kem, ikm }),
            2 => (gen::kem(), gen::stream()).prop_map(|(kem, stream)| Case::Gen { kem, stream }),
            6 => (gen::kem(), any::<bool>(), gen::ikm(), gen::ikm(), gen::stream(), 0u8..20)
                .prop_map(|(kem, auth, mut ikm_r, mut ikm_s, stream, rel)| {
                    // the ephemeral randomness reproduces a static key (enc == pkR / pkS), or the
                    // sender's identity key pair is the recipient's
                    let n = kem.nsk();
                    match rel {
                        0 => ikm_r = Bytes(stream[..n].to_vec()),
                        1 => ikm_s = Bytes(stream[..n].to_vec()),
                        2 => ikm_r = Bytes(stream[n..2 * n].to_vec()),
                        3 => ikm_s = Bytes(stream[n..2 * n].to_vec()),
                        4 => ikm_s = ikm_r.clone(),
                        _ => {}
                    }
                    Case::Encap { kem, auth, ikm_r, ikm_s, stream }
                }),
            1 => (proptest::sample::select(vec![KemId::P256, KemId::P384, KemId::P521]), gen::ikm(), gen::stream()).prop_map(|(kem, ikm_own, stream)| Case::ZeroXDh { kem, ikm_own, stream }),
            3 => (gen::kem(), gen::ikm(), any::<u64>(), any::<u16>(), gen::stream()).prop_map(|(kem, ikm_own, seed, idx, stream)| {
                let list = peer_keys(kem, seed);
                let peer = Bytes(list[crate::engine::pick_index(idx, list.len())].clone());
                Case::PeerKey { kem, ikm_own, peer, stream }
            }),
        ]
        .boxed()
    }
    fn cases(&self, tier: Tier) -> u32 {
        tier.pick(8000, 80000)
    }
    fn sweeps(&self, _tier: Tier) -> Vec<(String, Vec<Case>)> {
        let mut lens = Vec::new();
        for kem in KemId::ALL {
            for l in (0..=300usize).chain([65536usize]) {
                lens.push(Case::Derive { kem, ikm: Bytes(gen::fill(l, 5, 0xc03 + l as u64)) });
            }
        }
        let mut cells = Vec::new();
        for kem in KemId::ALL {
            for auth in [false, true] {
                for salt in 0..3u64 {
                    cells.push(Case::Encap {
                        kem,
                        auth,
                        ikm_r: Bytes(gen::fill(kem.nsk(), 5, 100 + salt)),
                        ikm_s: Bytes(gen::fill(kem.nsk(), 5, 200 + salt)),
                        stream: Bytes(gen::fill(160, 5, 300 + salt)),
                    });
                }
            }
            cells.push(Case::Gen { kem, stream: Bytes(gen::fill(160, 5, 400)) });
        }
        let c1: Vec<Case> = (0..corpus::p256_counter1().map(|v| v.len()).unwrap_or(0)).map(|i| Case::Counter1 { index: i }).collect();
        let mut vk = Vec::new();
        for f in ["anchors", "golden"] {
            for i in 0..super::c02::vectors(f).len() {
                vk.push(Case::VectorKeys { file: f.into(), index: i });
            }
        }
        let mut peers = Vec::new();
        for kem in [KemId::P256, KemId::P384, KemId::P521] {
            for i in 0..3u64 {
                peers.push(Case::ZeroXDh { kem, ikm_own: Bytes(gen::fill(kem.nsk(), 5, 700 + i)), stream: Bytes(gen::fill(160, 5, 800 + i)) });
            }
        }
        for kem in KemId::ALL {
            for (rel, auth) in [(0u8, false), (0, true), (1, true), (2, false), (3, true), (4, true)] {
                let stream = gen::fill(160, 5, 900 + rel as u64);
                let n = kem.nsk();
                let mut ikm_r = gen::fill(n, 5, 901);
                let mut ikm_s = gen::fill(n, 5, 902);
                match rel {
                    0 => ikm_r = stream[..n].to_vec(),
                    1 => ikm_s = stream[..n].to_vec(),
                    2 => ikm_r = stream[n..2 * n].to_vec(),
                    3 => ikm_s = stream[n..2 * n].to_vec(),
                    _ => ikm_s = ikm_r.clone(),
                }
                peers.push(Case::Encap { kem, auth, ikm_r: Bytes(ikm_r), ikm_s: Bytes(ikm_s), stream: Bytes(stream) });
            }
        }
        for kem in KemId::ALL {
            for (i, pk) in peer_keys(kem, 33).into_iter().enumerate() {
                peers.push(Case::PeerKey { kem, ikm_own: Bytes(gen::fill(kem.nsk(), 5, 500 + i as u64)), peer: Bytes(pk), stream: Bytes(gen::fill(160, 5, 600 + i as u64)) });
            }
        }
        vec![
            ("unusual_valid_peer_keys".into(), peers),
            ("p256_retry_path_golden_inputs".into(), c1),
            ("vector_key_pairs".into(), vk),
            ("kem_x_auth_cells".into(), cells),
            ("every_ikm_length_0_300_and_64k".into(), lens),
        ]
    }
    fn check(&self, case: &Case, obs: &mut Obs) -> Verdict {
        match case {
            Case::Derive { kem, ikm } => {
                obs.nontrivial = ikm.len() != 32;
                check_derive(*kem, ikm, obs, None, None)
            }
            Case::Gen { kem, stream } => {
                obs.label(format!("gen:{}", kem.name()));
                obs.nontrivial = *kem != KemId::X25519;
                check_gen(*kem, stream, obs)
            }
            Case::Encap { kem, auth, ikm_r, ikm_s, stream } => {
                obs.label(format!("encap:{}:auth={}", kem.name(), auth));
                obs.nontrivial = *auth || ikm_r.len() != 32;
                check_encap(*kem, *auth, ikm_r, ikm_s, stream, obs)
            }
            Case::PeerKey { kem, ikm_own, peer, stream } => {
                obs.label(format!("peer-key:{}", kem.name()));
                obs.nontrivial = true;
                check_peer(*kem, ikm_own, peer, stream, obs)
            }
            Case::ZeroXDh { kem, ikm_own, stream } => {
                obs.label(format!("zero-x-dh:{}", kem.name()));
                obs.nontrivial = true;
                let (sk, _) = gen::ref_keypair(*kem, ikm_own);
                match zero_x_peer(*kem, &sk) {
                    Some(peer) => {
                        // sanity: the reference DH really has a zero x-coordinate
                        match r::dh(*kem, &sk, &peer) {
                            Some(x) if x.iter().all(|&b| b == 0) => check_peer(*kem, ikm_own, &peer, stream, obs),
                            _ => Verdict::skip("construction_failed(zero-x peer)"),
                        }
                    }
                    None => Verdict::skip("no zero-x point on this curve"),
                }
            }
            Case::Counter1 { index } => {
                let es = match corpus::p256_counter1() {
                    Ok(e) => e,
                    Err(e) => return Verdict::skip(e),
                };
                let Some(e) = es.get(*index) else { return Verdict::skip("index out of range") };
                obs.nontrivial = true;
                obs.label("retry-path");
                check_derive(KemId::P256, &e.ikm, obs, Some(&e.expected_sk), None)
            }
            Case::VectorKeys { file, index } => {
                let vs = super::c02::vectors(file);
                let Some(v) = vs.get(*index) else { return Verdict::skip("index out of range") };
                obs.nontrivial = true;
                obs.label(format!("vector:{}", file));
                let kem = v.suite().kem;
                let a = check_derive(kem, &v.ikm_r, obs, v.sk_rm.as_ref().map(|b| &b.0[..]), v.pk_rm.as_ref().map(|b| &b.0[..]));
                if a != Verdict::Pass {
                    return a;
                }
                if let Some(ikm_s) = &v.ikm_s {
                    let b = check_derive(kem, ikm_s, obs, v.sk_sm.as_ref().map(|b| &b.0[..]), v.pk_sm.as_ref().map(|b| &b.0[..]));
                    if b != Verdict::Pass {
                        return b;
                    }
                }
                // ikmE -> enc is the ephemeral public key
                check_derive(kem, &v.ikm_e, obs, None, Some(&v.enc))
            }
        }
    }
}
