//! C04 - nonce sequencing: message i is sealed under base_nonce XOR BE(i); no nonce is reused; the
//! message limit is enforced, latches, and leaves the caller's buffer untouched.

use super::common::*;
use crate::engine::{Extra, Obs, Property, Tier, Verdict};
use crate::ensure;
use crate::gen::{self, Session};
use crate::refmodel::hpke_ref::{self as r, AeadId, KdfId, KemId, Suite};
use crate::suite::{self, spy_clear, spy_take, DynSender, DynSuite};
use crate::util::{hex, hex_short, Bytes};
use hpke::HpkeError;
use proptest::prelude::*;
use serde::{Deserialize, Serialize};
use serde_json::json;
use std::collections::HashMap;

#[derive(Clone, Debug, PartialEq, Eq, Serialize, Deserialize)]
pub enum Op {
    Seal { pt: Bytes, aad: Bytes, in_place: bool },
    Export,
    /// position the counter (hook); ignored when it would move backwards or the context is dead
    JumpTo(u64),
    /// k seals of a short message
    Burst(u16),
}

#[derive(Clone, Debug, Serialize, Deserialize)]
pub struct Case {
    pub sess: Session,
    /// use the recording SpyAead instead of the suite's AEAD
    pub spy: bool,
    pub ops: Vec<Op>,
}

pub struct P;

fn be_nonce(base: &[u8], i: u64) -> Vec<u8> {
    // written independently of the reference model's compute_nonce on purpose
    let mut n = base.to_vec();
    let len = n.len();
    let be = i.to_be_bytes();
    for k in 0..8 {
        n[len - 8 + k] ^= be[k];
    }
    n
}

struct Model {
    seq: u64,
    dead: bool,
}

struct Ctx<'a> {
    d: &'a dyn DynSuite,
    snd: Box<dyn DynSender>,
    base: Vec<u8>,
    ks: Option<r::KeySched>,
    seen_nonces: HashMap<Vec<u8>, u64>,
    keystreams: HashMap<Vec<u8>, u64>,
    model: Model,
    crossed_carry: bool,
    reached_limit: bool,
    seals: u64,
    key_mismatch: bool,
}

fn seal_step(c: &mut Ctx, pt: &[u8], aad: &[u8], in_place: bool, obs: &mut Obs) -> Result<(), Verdict> {
    let spy = c.d.is_spy();
    let aead = c.d.suite().aead;
    spy_clear();
    let mut buf = pt.to_vec();
    let res: Result<Vec<u8>, HpkeError> = if in_place {
        c.snd.seal_in_place(&mut buf, aad).map(|tag| {
            let mut ct = buf.clone();
            ct.extend_from_slice(&tag);
            ct
        })
    } else {
        c.snd.seal(pt, aad)
    };
    let log = spy_take();
    obs.inner_checks += 1;
    let api = if in_place { "seal_in_place_detached" } else { "seal" };
    if c.model.dead {
        let fail = |sig: &str, msg: String| Verdict::fail(sig, msg);
        match res {
            Err(HpkeError::MessageLimitReached) => {}
            other => {
                return Err(fail(
                    "C04/limit/not-latched",
                    format!("{} after the context refused with MessageLimitReached returned {:?} instead of refusing again", api, other.map(|c| hex_short(&c))),
                ))
            }
        }
        if in_place && buf != pt {
            return Err(fail("C04/limit/buffer-modified", format!("{} refused with MessageLimitReached but changed the caller's buffer from {} to {}", api, hex_short(pt), hex_short(&buf))));
        }
        if spy && !log.is_empty() {
            return Err(fail("C04/limit/aead-called", format!("{} refused with MessageLimitReached but called the AEAD with nonce {}", api, hex(&log[0].nonce))));
        }
        let (_, latch) = c.snd.seq_state();
        if !latch {
            return Err(fail("C04/limit/state", "the context refused with MessageLimitReached but its latch is clear".into()));
        }
        return Ok(());
    }
    let i = c.model.seq;
    let ct = match res {
        Ok(ct) => ct,
        Err(e) => {
            return Err(Verdict::fail(
                if e == HpkeError::MessageLimitReached { "C04/limit/refused-early" } else { "C04/seal/error" },
                format!("{} at sequence number {} (<= 2^64-1, context not exhausted) failed with {:?}", api, i, e),
            ))
        }
    };
    c.seals += 1;
    let want_nonce = be_nonce(&c.base, i);
    if spy {
        if log.len() != 1 || !log[0].enc {
            return Err(Verdict::fail("C04/seal/aead-calls", format!("{} at sequence number {} made {} AEAD calls, expected exactly one encryption", api, i, log.len())));
        }
        let rec = &log[0];
        if rec.nonce != want_nonce {
            return Err(Verdict::fail(
                "C04/nonce/not-base-xor-seq",
                format!("message at sequence number {} ({:#x}) was sealed under nonce {} but base_nonce {} XOR BE({}) is {}", i, i, hex(&rec.nonce), hex(&c.base), i, hex(&want_nonce)),
            ));
        }
        if rec.aad != aad || rec.len != pt.len() {
            return Err(Verdict::fail("C04/seal/aead-arguments", format!("the AEAD saw aad {} / length {} but the caller passed aad {} / length {}", hex_short(&rec.aad), rec.len, hex_short(aad), pt.len())));
        }
        if let Some(prev) = c.seen_nonces.insert(rec.nonce.clone(), i) {
            return Err(Verdict::fail("C04/nonce/reused", format!("nonce {} used for sequence number {} and again for {}", hex(&rec.nonce), prev, i)));
        }
    } else {
        // key-independent reuse detector: with CTR-based AEADs the same (key, nonce) gives the same
        // keystream, so ct XOR pt collides on a common prefix
        if pt.len() >= 12 {
            let ksx: Vec<u8> = ct.iter().zip(pt.iter()).take(12).map(|(a, b)| a ^ b).collect();
            if let Some(prev) = c.keystreams.insert(ksx, i) {
                return Err(Verdict::fail("C04/nonce/reused", format!("the messages at sequence numbers {} and {} were encrypted with the same keystream: the nonce was reused", prev, i)));
            }
        }
        if let (Some(ks), false) = (&c.ks, c.key_mismatch) {
            let want = r::aead_seal(aead, &ks.key, &want_nonce, aad, pt);
            if ct != want {
                // which nonce does the produced ciphertext authenticate under, with the reference key?
                let cands: Vec<(String, Vec<u8>)> = {
                    let mut v = vec![];
                    let nn = c.base.len();
                    let le = |x: u64| {
                        let mut n = c.base.clone();
                        for (k, b) in x.to_le_bytes().iter().enumerate() {
                            n[nn - 8 + k] ^= b;
                        }
                        n
                    };
                    let front = |x: u64| {
                        let mut n = c.base.clone();
                        for (k, b) in x.to_be_bytes().iter().enumerate() {
                            n[k] ^= b;
                        }
                        n
                    };
                    v.push(("base_nonce XOR BE(i+1)".to_string(), be_nonce(&c.base, i.wrapping_add(1))));
                    v.push(("base_nonce XOR BE(i-1)".to_string(), be_nonce(&c.base, i.wrapping_sub(1))));
                    v.push(("base_nonce XOR LE(i)".to_string(), le(i)));
                    v.push(("counter at the front of the nonce".to_string(), front(i)));
                    v.push(("base_nonce alone".to_string(), c.base.clone()));
                    v.push(("base_nonce XOR BE(i mod 2^32)".to_string(), be_nonce(&c.base, i & 0xffff_ffff)));
                    v.push(("base_nonce XOR BE(i mod 2^16)".to_string(), be_nonce(&c.base, i & 0xffff)));
                    v.push(("base_nonce XOR BE(i mod 2^8)".to_string(), be_nonce(&c.base, i & 0xff)));
                    v.push(("BE(i) alone".to_string(), be_nonce(&vec![0u8; nn], i)));
                    v
                };
                for (name, n) in cands {
                    if n != want_nonce && r::aead_open(aead, &ks.key, &n, aad, &ct).is_some() {
                        return Err(Verdict::fail(
                            "C04/nonce/not-base-xor-seq",
                            format!("the ciphertext at sequence number {} ({:#x}) authenticates under {} = {} instead of base_nonce XOR BE(i) = {}", i, i, name, hex(&n), hex(&want_nonce)),
                        ));
                    }
                }
                if r::aead_open(aead, &ks.key, &want_nonce, aad, &ct).is_none() {
                    // neither the expected nor a neighbouring nonce: the context's key differs from
                    // the reference key schedule (C02's business), nothing can be said about the nonce
                    c.key_mismatch = true;
                    obs.label("key-differs-from-reference");
                }
            }
        }
    }
    // advance the model
    if i == u64::MAX {
        c.model.dead = true;
        c.reached_limit = true;
    } else {
        c.model.seq = i + 1;
        if (i + 1).trailing_zeros() >= 8 {
            c.crossed_carry = true;
        }
    }
    let (s, latch) = c.snd.seq_state();
    if latch != c.model.dead || (!c.model.dead && s != c.model.seq) {
        return Err(Verdict::fail(
            "C04/state/counter",
            format!("after sealing at sequence number {} the context reports (seq={}, exhausted={}) but the model says (seq={}, exhausted={})", i, s, latch, c.model.seq, c.model.dead),
        ));
    }
    Ok(())
}

fn check(case: &Case, obs: &mut Obs) -> Verdict {
    let sess = &case.sess;
    let d: &dyn DynSuite = if case.spy { suite::get_spy(sess.suite.kem, sess.suite.kdf) } else { dsuite(sess) };
    labels_for(sess, obs);
    obs.label(if case.spy { "aead-observed:spy" } else { "aead-observed:ciphertext" });
    let keys = sess.keys();
    let (_, snd) = match honest_sender(d, sess, &keys) {
        Ok(x) => x,
        Err(v) => return v,
    };
    let base = snd.base_nonce();
    ensure!(base.len() == 12, "C04/base-nonce-length", "stored base nonce has {} bytes", base.len());
    // reference key for the ciphertext comparison (real AEADs)
    let ks = if case.spy {
        None
    } else {
        let mut s2 = sess.clone();
        s2.suite = d.suite();
        let ikm_e = s2.ikm_e();
        r::setup_s(&s2.sender_in(&keys, &ikm_e)).map(|(_, ks)| ks)
    };
    let mut c = Ctx {
        d,
        snd,
        base,
        ks,
        seen_nonces: HashMap::new(),
        keystreams: HashMap::new(),
        model: Model { seq: 0, dead: false },
        crossed_carry: false,
        reached_limit: false,
        seals: 0,
        key_mismatch: false,
    };
    let short = b"burst message..".to_vec();
    for op in &case.ops {
        match op {
            Op::Seal { pt, aad, in_place } => {
                if let Err(v) = seal_step(&mut c, pt, aad, *in_place, obs) {
                    return v;
                }
            }
            Op::Burst(k) => {
                for j in 0..*k {
                    if let Err(v) = seal_step(&mut c, &short, b"", j % 2 == 1, obs) {
                        return v;
                    }
                }
            }
            Op::Export => {
                let _ = c.snd.export(b"c04", 16);
                let (s, latch) = c.snd.seq_state();
                ensure!(latch == c.model.dead && (c.model.dead || s == c.model.seq), "C04/state/export-moved-counter", "export changed the counter state to ({}, {})", s, latch);
            }
            Op::JumpTo(n) => {
                if !c.model.dead && *n >= c.model.seq {
                    c.snd.set_seq(*n);
                    c.model.seq = *n;
                    obs.label("jump");
                }
            }
        }
    }
    if c.reached_limit {
        obs.label("reached-limit");
    }
    if c.crossed_carry {
        obs.label("crossed-byte-carry");
    }
    obs.nontrivial = c.crossed_carry || c.reached_limit || c.seals >= 3;
    Verdict::Pass
}

/// Public-API-only run: `n` seals from position 0 on a SpyAead context; no hooks are used, the
/// base nonce is the nonce observed for message 0.
fn long_run_spy(n: u64) -> Result<u64, (String, String)> {
    let s = Suite { kem: KemId::X25519, kdf: KdfId::Sha256, aead: AeadId::ChaCha };
    let d = suite::get_spy(s.kem, s.kdf);
    let sess = gen::cell_session(s, 0, 404);
    let keys = sess.keys();
    let (_, mut snd) = honest_sender(d, &sess, &keys).map_err(|_| ("infra".to_string(), "setup failed".to_string()))?;
    let mut base: Vec<u8> = vec![];
    let mut buf = [0x55u8; 1];
    spy_clear();
    for i in 0..n {
        buf[0] = i as u8;
        if let Err(e) = snd.seal_in_place(&mut buf, b"") {
            return Err(("C04/seal/error".into(), format!("long run: seal #{} failed: {:?}", i, e)));
        }
        let log = spy_take();
        if log.len() != 1 {
            return Err(("C04/seal/aead-calls".into(), format!("long run: seal #{} made {} AEAD calls", i, log.len())));
        }
        if i == 0 {
            base = log[0].nonce.clone();
        }
        let want = be_nonce(&base, i);
        if log[0].nonce != want {
            return Err(("C04/nonce/not-base-xor-seq".into(), format!("long run (public API only): message {} was sealed under nonce {}, expected nonce_0 XOR BE({}) = {}", i, hex(&log[0].nonce), i, hex(&want))));
        }
    }
    Ok(n)
}

/// Public-API-only run on a real AEAD: `n` seals compared with the reference key schedule
fn long_run_real(aead: AeadId, n: u64) -> Result<u64, (String, String)> {
    let s = Suite { kem: KemId::X25519, kdf: KdfId::Sha256, aead };
    let d = suite::get(s);
    let sess = gen::cell_session(s, 0, 405);
    let keys = sess.keys();
    let ikm_e = sess.ikm_e();
    let (_, ks) = r::setup_s(&sess.sender_in(&keys, &ikm_e)).ok_or(("infra".to_string(), "reference setup failed".to_string()))?;
    let (_, mut snd) = honest_sender(d, &sess, &keys).map_err(|_| ("infra".to_string(), "setup failed".to_string()))?;
    let first = snd.seal(b"calibration message", b"").map_err(|e| ("C04/seal/error".to_string(), format!("{:?}", e)))?;
    if first != ks.seal(0, b"", b"calibration message") {
        return Ok(0); // key schedule differs from the reference: C02's business
    }
    let pt = [0u8; 16];
    for i in 1..n {
        let ct = snd.seal(&pt, b"").map_err(|e| ("C04/seal/error".to_string(), format!("long run: seal #{} failed: {:?}", i, e)))?;
        let want = ks.seal(i, b"", &pt);
        if ct != want {
            return Err(("C04/nonce/not-base-xor-seq".into(), format!("long run (public API only, {}): ciphertext #{} is not AEAD(key, base_nonce XOR BE({}))", aead.name(), i, i)));
        }
    }
    Ok(n)
}

/// probes/c04: can a sender context be duplicated through `Clone`? Two copies share key, base nonce
/// and counter, so the i-th message of each is sealed under the same (key, nonce).
fn duplication_probe(x: &mut Extra) {
    let tree = std::env::var("HPKE_TREE").unwrap_or_else(|_| "/repo".into());
    let tbase = std::env::var("VERIF_TARGET_BASE").unwrap_or_else(|_| crate::engine::root().join("target").to_string_lossy().into_owned());
    let dir = crate::engine::root().join("probes").join("c04");
    let mut cmd = std::process::Command::new("cargo");
    cmd.current_dir(&dir).env("CARGO_NET_OFFLINE", "true").env_remove("RUSTFLAGS").args(["run", "--offline", "--quiet", "--target-dir", &format!("{}/c04probe", tbase)]);
    if tree != "/repo" {
        cmd.args(["--config", &format!("paths=[\"{}\"]", tree)]);
    }
    let out = match cmd.output() {
        Ok(o) => o,
        Err(e) => {
            x.notes.insert("sender_duplication_probe".into(), json!({"status": format!("not run: {}", e)}));
            return;
        }
    };
    let stdout = String::from_utf8_lossy(&out.stdout);
    if !out.status.success() || !stdout.lines().any(|l| l.trim() == "DONE") {
        x.notes.insert("sender_duplication_probe".into(), json!({"status": "unobservable: the probe does not build against this tree"}));
        return;
    }
    let dup = stdout.lines().any(|l| l.trim() == "SENDER_CONTEXT_CLONE=true");
    x.evaluations += 1;
    x.notes.insert("sender_duplication_probe".into(), json!({"status": "run", "sender_context_is_clone": dup}));
    if dup {
        x.failure = Some((
            "C04/sender-context-duplicable".into(),
            "AeadCtxS implements Clone: a copy of a sender context shares key, base nonce and sequence counter with the original, so message i of the copy and message i of the original are sealed under the same nonce".into(),
            json!({"probe": "sender_duplication"}),
        ));
    }
}

impl Property for P {
    type Case = Case;
    fn id(&self) -> &'static str {
        "C04"
    }
    fn rule(&self) -> String {
        "Generated: histories over one sender context: Seal(pt,aad) through seal / seal_in_place_detached, Export, JumpTo(n) (hook; n from every byte-carry boundary 2^(8k)-1-d / 2^(8k)+d, 2^64-1-d, log-uniform, small), Burst(k<=300); half of the cases on the recording SpyAead, half on the 3 real AEADs. \
         Swept: every boundary position x {Spy, AES-128-GCM, AES-256-GCM, ChaCha20Poly1305} with a burst that crosses it and, at the top, runs into the limit; public-API-only runs from position 0 (Spy + 3 real AEADs, length in coverage.long_runs). \
         Oracle: model (seq, dead). Spy: recorded nonce == stored base nonce XOR BE64(i) left-padded (absolute), pairwise distinct, one AEAD call per seal with the caller's aad/length. Real AEADs: ct == AEAD(key_ref, B XOR BE(i), aad, pt); on mismatch trial decryption under neighbouring nonces separates a wrong nonce (violation) from a key that differs from the reference (skipped); keystream-collision detector for reuse. Limit: seal at 2^64-1 succeeds, afterwards MessageLimitReached forever, buffer unchanged, no AEAD call; hook state == model after every step. \
         Compile probe probes/c04: the sender context must not be duplicable through Clone (a copy would share key, base nonce and counter). Non-trivial: a history that crosses a byte carry, or reaches exhaustion, or has >=3 seals."
            .into()
    }
    fn assumptions(&self) -> Vec<String> {
        vec![
            "2^64 positions are sampled (all byte carries, both ends, random interior), not enumerated; positions >= 2^24 are reached only through the verif_set_seq hook".into(),
            "the real AEADs' nonce cannot be observed directly; it is inferred from the ciphertext under the reference key".into(),
        ]
    }
    fn prelude(&self, _tier: Tier) -> Result<Vec<String>, String> {
        crate::refmodel::selfcheck::oracle_selfcheck(8).map(|_| vec![])
    }
    fn strategy(&self, _tier: Tier) -> BoxedStrategy<Case> {
        let op = prop_oneof![
            6 => (gen::bytes(80), gen::bytes(40), any::<bool>()).prop_map(|(pt, aad, in_place)| Op::Seal { pt, aad, in_place }),
            1 => Just(Op::Export),
            3 => gen::position().prop_map(Op::JumpTo),
            1 => (1u16..300).prop_map(Op::Burst),
            1 => (1u16..8).prop_map(Op::Burst),
        ];
        (gen::session_with(gen::suite_sealing_cheap()), any::<bool>(), proptest::collection::vec(op, 1..=16)).prop_map(|(sess, spy, ops)| Case { sess, spy, ops }).boxed()
    }
    fn cases(&self, tier: Tier) -> u32 {
        tier.pick(12000, 120000)
    }
    fn sweeps(&self, _tier: Tier) -> Vec<(String, Vec<Case>)> {
        let mut v = Vec::new();
        for pos in gen::boundary_positions() {
            for (k, aead) in [AeadId::ChaCha, AeadId::Aes128, AeadId::Aes256, AeadId::ChaCha].into_iter().enumerate() {
                let s = Suite { kem: KemId::X25519, kdf: KdfId::Sha256, aead };
                let start = pos.saturating_sub(3);
                let mut ops = vec![Op::Seal { pt: Bytes(gen::fill(20, 5, pos)), aad: Bytes(b"a".to_vec()), in_place: false }, Op::JumpTo(start), Op::Burst(8)];
                // after exhaustion: both forms must refuse and leave the buffer alone
                ops.push(Op::Seal { pt: Bytes(gen::fill(33, 5, 1)), aad: Bytes(vec![]), in_place: true });
                ops.push(Op::Seal { pt: Bytes(gen::fill(33, 5, 2)), aad: Bytes(vec![]), in_place: false });
                ops.push(Op::Export);
                v.push(Case { sess: gen::cell_session(s, (k % 4) as u8, 4), spy: k == 0, ops });
            }
        }
        vec![("boundary_positions_x_aead".into(), v)]
    }
    fn check(&self, case: &Case, obs: &mut Obs) -> Verdict {
        check(case, obs)
    }
    fn extra(&self, tier: Tier, _seed: u64, x: &mut Extra) {
        // long public-API-only runs, in parallel
        let n_spy: u64 = tier.pick(70_000, (1 << 24) + 2);
        let n_real: u64 = tier.pick(20_000, 1 << 20);
        let results: Vec<(String, Result<u64, (String, String)>)> = std::thread::scope(|s| {
            let mut hs = vec![("spy".to_string(), s.spawn(move || long_run_spy(n_spy)))];
            for a in AeadId::SEALING {
                hs.push((a.name().to_string(), s.spawn(move || long_run_real(a, n_real))));
            }
            hs.into_iter().map(|(n, h)| (n, h.join().unwrap_or_else(|_| Err(("infra".into(), "long run panicked".into()))))).collect()
        });
        let mut runs = serde_json::Map::new();
        for (name, r) in results {
            match r {
                Ok(n) => {
                    x.evaluations += n;
                    runs.insert(name, json!({"seals_from_position_0": n, "hooks_used": false}));
                }
                Err((sig, msg)) if sig == "infra" => x.infra_error = Some(msg),
                Err((sig, msg)) => {
                    if x.failure.is_none() {
                        x.failure = Some((sig, msg, json!({"long_run": name, "n": if name == "spy" { n_spy } else { n_real }})));
                    }
                }
            }
        }
        x.notes.insert("long_runs".into(), serde_json::Value::Object(runs));
        if x.failure.is_none() {
            duplication_probe(x);
        }
    }
    fn replay_extra(&self, payload: &serde_json::Value, x: &mut Extra) {
        if payload["probe"] == "sender_duplication" {
            duplication_probe(x);
            return;
        }
        let n = payload["n"].as_u64().unwrap_or(70_000);
        let r = match payload["long_run"].as_str() {
            Some("spy") => long_run_spy(n),
            Some(name) => long_run_real(AeadId::SEALING.into_iter().find(|a| a.name() == name).unwrap_or(AeadId::ChaCha), n),
            None => Ok(0),
        };
        if let Err((sig, msg)) = r {
            x.failure = Some((sig, msg, payload.clone()));
        }
    }
}
