//! C02 - wire-exact RFC 9180 interoperability of setup, seal/open and export.
//! Differential oracle: the independent reference model, both directions.

use crate::corpus::{self, Golden};
use crate::engine::{Obs, Property, Tier, Verdict};
use crate::gen::{self, Msg, Session};
use crate::refmodel::hpke_ref as r;
use crate::suite::{self, Fail, ModeR, ModeS, ScriptRng};
use crate::util::{hex_short, Bytes};
use crate::ensure;
use proptest::prelude::*;
use serde::{Deserialize, Serialize};
use std::sync::OnceLock;

#[derive(Clone, Debug, PartialEq, Eq, Serialize, Deserialize)]
pub struct ExportReq {
    pub ctx: Bytes,
    pub len: usize,
}

#[derive(Clone, Debug, Serialize, Deserialize)]
pub enum Case {
    /// a generated session compared with the reference model, both directions
    Session {
        sess: Session,
        msgs: Vec<Msg>,
        exports: Vec<ExportReq>,
        /// sequence number of the first message (the hpke contexts are placed there through the hook;
        /// the reference simply computes ComputeNonce(start + i))
        #[serde(default)]
        start: u64,
    },
    /// a committed vector (file "anchors" = verified RFC 9180 Appendix A; "golden" = independent
    /// Python implementation) replayed through hpke itself
    Vector { file: String, index: usize },
}

pub struct P;

pub fn vectors(file: &str) -> &'static [Golden] {
    static A: OnceLock<Vec<Golden>> = OnceLock::new();
    static G: OnceLock<Vec<Golden>> = OnceLock::new();
    match file {
        "anchors" => A.get_or_init(|| corpus::anchors().expect("anchors.json")),
        _ => G.get_or_init(|| corpus::golden().expect("golden_rfc9180.json")),
    }
}

pub fn export_req(nh: usize) -> BoxedStrategy<ExportReq> {
    let max = 255 * nh;
    let len = prop_oneof![
        6 => 0usize..=80,
        2 => proptest::sample::select(vec![0usize, 1, nh - 1, nh, nh + 1, 2 * nh, max - 1, max]),
        1 => 0usize..=max,
    ];
    (gen::bytes(200), len).prop_map(|(ctx, len)| ExportReq { ctx, len }).boxed()
}

fn strategy() -> BoxedStrategy<Case> {
    gen::session_any()
        .prop_flat_map(|sess| {
            let nh = sess.suite.kdf.nh();
            let start = prop_oneof![4 => Just(0u64), 1 => gen::position()];
            (Just(sess), proptest::collection::vec(prop_oneof![30 => gen::msg(600), 1 => gen::msg(70_000)], 0..=6), proptest::collection::vec(export_req(nh), 0..=3), start)
        })
        .prop_map(|(mut sess, msgs, exports, start)| {
            // RFC 9180 SetupS is defined for every ikmE, including the one that reproduces the
            // recipient's or the sender's own key pair (enc == pkR / pkS)
            let nsk = sess.suite.kem.nsk();
            match sess.stream[159] % 40 {
                1 | 2 => sess.ikm_r = Bytes(sess.stream[..nsk].to_vec()),
                3 => sess.ikm_s = Bytes(sess.stream[..nsk].to_vec()),
                _ => {}
            }
            Case::Session { sess, msgs, exports, start }
        })
        .boxed()
}

fn check_session(sess: &Session, msgs: &[Msg], exports: &[ExportReq], start: u64, obs: &mut Obs) -> Verdict {
    let suite = sess.suite;
    let d = suite::get(suite);
    let keys = sess.keys();
    let nsk = sess.nsk();
    let sealing = suite.aead.sealing();
    obs.label(format!("kem:{}", suite.kem.name()));
    obs.label(format!("aead:{}", suite.aead.name()));
    obs.label(format!("mode:{}", sess.mode));
    obs.nontrivial = sess.mode != 0 || msgs.len() >= 2 || (!sess.info.is_empty() && msgs.iter().any(|m| !m.aad.is_empty()));

    // (a) hpke is the sender
    let ikm_e = sess.ikm_e();
    let (enc_ref, ks) = match r::setup_s(&sess.sender_in(&keys, &ikm_e)) {
        Some(x) => x,
        None => return Verdict::skip("reference SetupS rejects the inputs"),
    };
    let mut rng = ScriptRng::new(&sess.stream);
    let ms: ModeS = sess.mode_s(&keys);
    let (enc, mut snd) = match d.setup_sender(&ms, &keys.pk_r, &sess.info, &mut rng) {
        Ok(x) => x,
        Err(Fail::Construct(step, e)) => return Verdict::skip(format!("construction_failed({}:{:?})", step, e)),
        Err(Fail::Hpke(e)) => {
            return Verdict::fail("C02/setup_sender/error", format!("setup_sender failed with {:?} on inputs the RFC accepts ({})", e, suite.label()))
        }
    };
    ensure!(
        rng.drawn() == nsk && !rng.overdraw,
        "C02/setup_sender/rng-draw",
        "setup_sender drew {} bytes from the RNG, RFC 9180 DeriveKeyPair(ikmE) takes Nsk = {} ({})",
        rng.drawn(),
        nsk,
        suite.label()
    );
    obs.inner_checks += 1;
    ensure!(
        enc == enc_ref,
        "C02/sender/enc",
        "encapsulated key differs from RFC 9180 SetupS: hpke {} reference {} ({} mode {})",
        hex_short(&enc),
        hex_short(&enc_ref),
        suite.label(),
        sess.mode
    );
    if start != 0 {
        obs.label("start-position-nonzero");
        snd.set_seq(start);
    }
    // stay below the message limit: C04 owns what happens there
    let msgs: &[Msg] = if (u64::MAX - start) < msgs.len() as u64 { &msgs[..(u64::MAX - start) as usize] } else { msgs };
    if sealing {
        for (i, m) in msgs.iter().enumerate() {
            let ct = match snd.seal(&m.pt, &m.aad) {
                Ok(c) => c,
                Err(e) => return Verdict::fail("C02/sender/seal-error", format!("seal #{} failed: {:?}", i, e)),
            };
            let want = ks.seal(start + i as u64, &m.aad, &m.pt);
            obs.inner_checks += 1;
            ensure!(
                ct == want,
                "C02/sender/ciphertext",
                "ciphertext #{} differs from RFC 9180 ContextS.Seal: hpke {} reference {} ({} mode {})",
                i,
                hex_short(&ct),
                hex_short(&want),
                suite.label(),
                sess.mode
            );
        }
    }
    for (i, x) in exports.iter().enumerate() {
        let got = snd.export(&x.ctx, x.len);
        let want = ks.export(&x.ctx, x.len);
        obs.inner_checks += 1;
        ensure!(
            got.as_ref().ok() == want.as_ref(),
            "C02/sender/export",
            "sender export #{} (L={}) differs from RFC 9180 Context.Export: hpke {:?} reference {:?} ({} mode {})",
            i,
            x.len,
            got.as_ref().map(|v| hex_short(v)),
            want.as_ref().map(|v| hex_short(v)),
            suite.label(),
            sess.mode
        );
    }

    // (b) the reference is the sender, hpke the receiver. Mostly the reference derives its ephemeral
    // key from ikmE like everybody else; in some cases it picks the ephemeral PRIVATE key itself
    // (tiny scalars 1..=3, so enc is the generator or a small multiple; for the NIST curves also
    // n-1..n-3) - values no RNG preimage is known for, yet perfectly valid encapsulations
    let ikm_e2 = sess.ikm_e2();
    let explicit_sk: Option<Vec<u8>> = match (sess.stream[157] % 16, suite.kem.curve()) {
        (k @ 0..=2, Some(c)) => {
            let mut v = vec![0u8; c.fb];
            v[c.fb - 1] = k + 1;
            Some(v)
        }
        (k @ 3..=5, Some(c)) => {
            let mut small = vec![0u64; c.k()];
            small[0] = (k - 2) as u64;
            Some(crate::refmodel::arith::to_be(&crate::refmodel::arith::sub_plain(&c.n, &small).0, c.fb))
        }
        _ => None,
    };
    let reference = match &explicit_sk {
        Some(sk) => {
            obs.label("reference-sender:explicit-ephemeral-scalar");
            r::setup_s_with_sk(&sess.sender_in(&keys, &ikm_e2), sk)
        }
        None => r::setup_s(&sess.sender_in(&keys, &ikm_e2)),
    };
    let (enc2, ks2) = match reference {
        Some(x) => x,
        None => return Verdict::skip("reference SetupS rejects the inputs (second ephemeral)"),
    };
    let mr: ModeR = sess.mode_r(&keys);
    let mut rcv = match d.setup_receiver(&mr, &keys.sk_r, &enc2, &sess.info) {
        Ok(x) => x,
        Err(Fail::Construct(step, e)) => return Verdict::skip(format!("construction_failed({}:{:?})", step, e)),
        Err(Fail::Hpke(e)) => {
            return Verdict::fail("C02/setup_receiver/error", format!("setup_receiver failed with {:?} on a reference-produced encapsulated key ({})", e, suite.label()))
        }
    };
    if start != 0 {
        rcv.set_seq(start);
    }
    if sealing {
        for (i, m) in msgs.iter().enumerate() {
            let ct = ks2.seal(start + i as u64, &m.aad, &m.pt);
            let got = rcv.open(&ct, &m.aad);
            obs.inner_checks += 1;
            ensure!(
                got.as_ref() == Ok(&m.pt.0),
                "C02/receiver/open",
                "receiver did not open reference ciphertext #{} to the plaintext: {:?} ({} mode {})",
                i,
                got.as_ref().map(|v| hex_short(v)),
                suite.label(),
                sess.mode
            );
        }
    }
    for (i, x) in exports.iter().enumerate() {
        let got = rcv.export(&x.ctx, x.len);
        let want = ks2.export(&x.ctx, x.len);
        obs.inner_checks += 1;
        ensure!(
            got.as_ref().ok() == want.as_ref(),
            "C02/receiver/export",
            "receiver export #{} (L={}) differs from the reference sender's: hpke {:?} reference {:?} ({} mode {})",
            i,
            x.len,
            got.as_ref().map(|v| hex_short(v)),
            want.as_ref().map(|v| hex_short(v)),
            suite.label(),
            sess.mode
        );
    }
    Verdict::Pass
}

/// Replays a committed vector through hpke itself (the reference model is not involved, except to
/// derive key bytes a vector does not carry)
fn check_vector(file: &str, index: usize, obs: &mut Obs) -> Verdict {
    let vs = vectors(file);
    if index >= vs.len() {
        return Verdict::skip("vector index out of range");
    }
    let v = &vs[index];
    let suite = v.suite();
    let d = suite::get(suite);
    obs.label(format!("vector:{}", file));
    obs.label(format!("kem:{}", suite.kem.name()));
    obs.label(format!("mode:{}", v.mode));
    obs.nontrivial = true;
    let name = v.name.clone().unwrap_or_else(|| format!("{}[{}]", file, index));
    let (sk_r, pk_r) = match (&v.sk_rm, &v.pk_rm) {
        (Some(s), Some(p)) => (s.0.clone(), p.0.clone()),
        _ => r::derive_key_pair(suite.kem, &v.ikm_r),
    };
    let (sk_s, pk_s) = match (&v.sk_sm, &v.pk_sm, &v.ikm_s) {
        (Some(s), Some(p), _) => (s.0.clone(), p.0.clone()),
        (_, _, Some(ikm)) => r::derive_key_pair(suite.kem, ikm),
        _ => (vec![], vec![]),
    };
    let e = Bytes::default();
    let info = v.info.as_ref().unwrap_or(&e);
    let ms = ModeS {
        mode: v.mode,
        psk: v.psk.clone().unwrap_or_default(),
        psk_id: v.psk_id.clone().unwrap_or_default(),
        sk_s: Bytes(sk_s),
        pk_s: Bytes(pk_s),
    };
    let mut rng = ScriptRng::new(&v.ikm_e);
    let (enc, mut snd) = match d.setup_sender(&ms, &pk_r, info, &mut rng) {
        Ok(x) => x,
        Err(f) => return Verdict::fail("C02/vector/setup_sender", format!("{}: setup_sender failed: {:?}", name, f)),
    };
    ensure!(!rng.overdraw && rng.drawn() == v.ikm_e.len(), "C02/setup_sender/rng-draw", "{}: drew {} bytes, vector ikmE has {}", name, rng.drawn(), v.ikm_e.len());
    ensure!(enc == v.enc.0, "C02/sender/enc", "{}: enc {} differs from the vector's {}", name, hex_short(&enc), hex_short(&v.enc));
    let mut rcv = match d.setup_receiver(&ms.receiver(), &sk_r, &v.enc, info) {
        Ok(x) => x,
        Err(f) => return Verdict::fail("C02/vector/setup_receiver", format!("{}: setup_receiver failed: {:?}", name, f)),
    };
    if suite.aead.sealing() {
        for (i, enc_) in v.encryptions.iter().enumerate() {
            let ct = snd.seal(&enc_.pt, &enc_.aad);
            obs.inner_checks += 2;
            ensure!(ct.as_ref() == Ok(&enc_.ct.0), "C02/sender/ciphertext", "{}: ciphertext #{} {:?} differs from the vector's {}", name, i, ct.as_ref().map(|c| hex_short(c)), hex_short(&enc_.ct));
            let pt = rcv.open(&enc_.ct, &enc_.aad);
            ensure!(pt.as_ref() == Ok(&enc_.pt.0), "C02/receiver/open", "{}: the vector's ciphertext #{} does not open to its plaintext: {:?}", name, i, pt.as_ref().map(|c| hex_short(c)));
        }
    }
    for (i, x) in v.exports.iter().enumerate() {
        obs.inner_checks += 2;
        let a = snd.export(&x.exporter_context, x.l);
        ensure!(a.as_ref() == Ok(&x.value.0), "C02/sender/export", "{}: sender export #{} differs from the vector", name, i);
        let b = rcv.export(&x.exporter_context, x.l);
        ensure!(b.as_ref() == Ok(&x.value.0), "C02/receiver/export", "{}: receiver export #{} differs from the vector", name, i);
    }
    Verdict::Pass
}

impl Property for P {
    type Case = Case;
    fn id(&self) -> &'static str {
        "C02"
    }
    fn rule(&self) -> String {
        "Generated: (suite of 48, mode, ikmR, ikmS, psk>=1B, psk_id>=1B, info, RNG stream, 0..=6 messages, 0..=3 exports with L<=255*Nh); \
         in 20% of the cases the first message is at a non-zero sequence position (byte-carry boundaries, log-uniform; hpke contexts placed through the hook); swept: all 48x4 suite/mode cells with a fixed script, every sequence byte-carry boundary x 3 AEADs, and P-256 sessions (3 KDFs x 4 modes x sealing/export-only) whose RNG delivers each committed golden ikm with a first DeriveKeyPair candidate >= n (ephemeral key on the counter-1 retry path), and every length of info (0..=1100), psk and psk_id (1..=600) and exporter context (0..=1100, multi-block L) per KDF, plus ten lengths just above the chunk/page sizes 4 KiB..128 KiB for each; replayed: 6 verified RFC 9180 anchors and 243 golden vectors through hpke itself. \
         Oracle: independent RFC 9180 reference model (own HKDF, own curve arithmetic), hpke-as-sender and hpke-as-receiver; as a sender the reference sometimes chooses the ephemeral private key itself (1..3, n-1..n-3 on the NIST curves: enc is the generator or a small multiple of it). \
         Non-trivial: a non-Base mode, or >=2 messages (nonce increments), or non-empty info with non-empty aad, or a committed vector; distinct by case encoding."
            .into()
    }
    fn assumptions(&self) -> Vec<String> {
        vec![
            "the reference model's primitives (sha2, aes-gcm, chacha20poly1305) are correct".into(),
            "the reference model's reading of RFC 9180 is pinned by 6 published vectors and 243 vectors of an independent Python implementation, re-verified at start-up".into(),
            "inputs stay inside the RFC's domain: matched sender key pairs, non-empty PSK and PSK id in PSK modes".into(),
        ]
    }
    fn prelude(&self, _tier: Tier) -> Result<Vec<String>, String> {
        let rep = crate::refmodel::selfcheck::oracle_selfcheck(1)?;
        Ok(vec![format!("oracle self-check: {} anchors and {} golden vectors reproduced by the reference model", rep.anchors, rep.golden)])
    }
    fn strategy(&self, _tier: Tier) -> BoxedStrategy<Case> {
        strategy()
    }
    fn cases(&self, tier: Tier) -> u32 {
        tier.pick(10000, 100000)
    }
    fn sweeps(&self, _tier: Tier) -> Vec<(String, Vec<Case>)> {
        let cells: Vec<Case> = gen::all_cells(&r::Suite::all48())
            .into_iter()
            .map(|(s, m)| Case::Session {
                sess: gen::cell_session(s, m, 2),
                msgs: gen::fixed_msgs(2),
                exports: vec![ExportReq { ctx: Bytes(b"ctx".to_vec()), len: 32 }, ExportReq { ctx: Bytes(vec![]), len: s.kdf.nh() + 1 }],
                start: 0,
            })
            .collect();
        // every byte-carry boundary of the sequence number, per sealing AEAD
        let mut high = Vec::new();
        for (k, aead) in r::AeadId::SEALING.into_iter().enumerate() {
            for pos in gen::boundary_positions() {
                let s = r::Suite { kem: r::KemId::X25519, kdf: r::KdfId::Sha256, aead };
                high.push(Case::Session { sess: gen::cell_session(s, (k as u8 + pos as u8 % 4) % 4, 22), msgs: gen::fixed_msgs(22), exports: vec![], start: pos.saturating_sub(1) });
            }
        }
        // ephemeral keying material equal to the recipient's (and sender's) ikm, per KEM x mode
        let mut same = Vec::new();
        for kem in r::KemId::ALL {
            for m in 0..4u8 {
                let su = r::Suite { kem, kdf: kem.kdf(), aead: r::AeadId::ChaCha };
                let mut a = gen::cell_session(su, m, 23);
                a.ikm_r = Bytes(a.stream[..kem.nsk()].to_vec());
                same.push(Case::Session { sess: a.clone(), msgs: gen::fixed_msgs(23), exports: vec![], start: 0 });
                a.ikm_s = a.ikm_r.clone();
                same.push(Case::Session { sess: a, msgs: gen::fixed_msgs(23), exports: vec![], start: 0 });
            }
        }
        // the sender's RNG delivers keying material whose first P-256 DeriveKeyPair candidate is >= n
        // (committed golden inputs, a 2^-32 event): enc, every ciphertext and every export must be the
        // ones of the key pair found at counter 1; also as the second draw and as a static key's ikm
        let mut retry = Vec::new();
        for (gi, g) in corpus::p256_counter1().unwrap_or_default().iter().enumerate() {
            for kdf in r::KdfId::ALL {
                for (ai, aead) in [r::AeadId::ChaCha, r::AeadId::Export, r::AeadId::Aes128].into_iter().enumerate() {
                    for m in 0..4u8 {
                        if (gi + ai + m as usize) % 2 == 1 && ai == 2 {
                            continue;
                        }
                        let su = r::Suite { kem: r::KemId::P256, kdf, aead };
                        let mut a = gen::cell_session(su, m, 24 + gi as u64);
                        let mut st = a.stream.0.clone();
                        st[..32].copy_from_slice(&g.ikm);
                        a.stream = Bytes(st);
                        let exports = vec![ExportReq { ctx: Bytes(b"retry".to_vec()), len: 32 }];
                        retry.push(Case::Session { sess: a.clone(), msgs: gen::fixed_msgs(24), exports: exports.clone(), start: 0 });
                        if m == 3 && ai == 0 {
                            // static keys derived from the same keying material (reference-derived bytes are
                            // handed to the library; the ephemeral one still takes the retry path)
                            a.ikm_r = g.ikm.clone();
                            a.ikm_s = g.ikm.clone();
                            retry.push(Case::Session { sess: a, msgs: gen::fixed_msgs(24), exports, start: 0 });
                        }
                    }
                }
            }
        }
        // dense lengths of every variable-length input (X25519, one suite per KDF): info 0..=1100,
        // psk and psk_id 1..=600 (Psk mode), exporter context 0..=1100 with a multi-block L; a fixed
        // stack buffer or a length prefix computed wrongly fails at a length no edge list contains
        let mut dense = Vec::new();
        for (ki, kdf) in r::KdfId::ALL.into_iter().enumerate() {
            let su = r::Suite { kem: r::KemId::X25519, kdf, aead: if ki == 2 { r::AeadId::Export } else { r::AeadId::ChaCha } };
            let one_msg = vec![gen::fixed_msgs(25)[0].clone()];
            for l in 0..=1100usize {
                let mut a = gen::cell_session(su, 0, 25);
                a.info = Bytes(gen::fill(l, 5, 250 + l as u64));
                dense.push(Case::Session { sess: a, msgs: one_msg.clone(), exports: vec![], start: 0 });
            }
            for l in 1..=600usize {
                let mut a = gen::cell_session(su, 1, 26);
                a.psk = Bytes(gen::fill(l, 5, 260 + l as u64));
                dense.push(Case::Session { sess: a, msgs: one_msg.clone(), exports: vec![], start: 0 });
                let mut b = gen::cell_session(su, 3, 27);
                b.psk_id = Bytes(gen::fill(l, 5, 270 + l as u64));
                dense.push(Case::Session { sess: b, msgs: one_msg.clone(), exports: vec![], start: 0 });
            }
            // and just above every plausible chunk / page size up to 128 KiB
            for (j, l) in [4095usize, 4097, 5000, 8193, 10000, 16385, 32769, 65537, 70001, 131073].into_iter().enumerate() {
                let mut a = gen::cell_session(su, 0, 29);
                a.info = Bytes(gen::fill(l, 5, 290 + l as u64));
                dense.push(Case::Session { sess: a, msgs: one_msg.clone(), exports: vec![ExportReq { ctx: Bytes(gen::fill(l, 5, 291 + l as u64)), len: kdf.nh() + 9 }], start: 0 });
                let mut b = gen::cell_session(su, if j % 2 == 0 { 1 } else { 3 }, 30);
                if j % 3 == 0 {
                    b.psk_id = Bytes(gen::fill(l, 5, 292 + l as u64));
                } else {
                    b.psk = Bytes(gen::fill(l, 5, 293 + l as u64));
                }
                dense.push(Case::Session { sess: b, msgs: one_msg.clone(), exports: vec![], start: 0 });
            }
            let mut from = 0usize;
            while from <= 1100 {
                let to = (from + 99).min(1100);
                let exports: Vec<ExportReq> = (from..=to).map(|cl| ExportReq { ctx: Bytes(gen::fill(cl, 5, 280 + cl as u64)), len: kdf.nh() + 1 + cl % 50 }).collect();
                dense.push(Case::Session { sess: gen::cell_session(su, ki as u8, 28), msgs: vec![], exports, start: 0 });
                from = to + 1;
            }
        }
        let anchors: Vec<Case> = (0..vectors("anchors").len()).map(|i| Case::Vector { file: "anchors".into(), index: i }).collect();
        let golden: Vec<Case> = (0..vectors("golden").len()).map(|i| Case::Vector { file: "golden".into(), index: i }).collect();
        vec![("rfc9180_anchors".into(), anchors), ("golden_vectors".into(), golden), ("suite_x_mode_cells".into(), cells), ("sequence_boundaries_x_aead".into(), high), ("ephemeral_ikm_equals_static_ikm".into(), same), ("ephemeral_ikm_on_the_p256_retry_path".into(), retry), ("every_length_of_info_psk_pskid_exporter_context".into(), dense)]
    }
    fn check(&self, case: &Case, obs: &mut Obs) -> Verdict {
        match case {
            Case::Session { sess, msgs, exports, start } => check_session(sess, msgs, exports, *start, obs),
            Case::Vector { file, index } => check_vector(file, *index, obs),
        }
    }
}

