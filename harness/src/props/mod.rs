pub mod c02;
