pub mod common;
pub mod c01;
pub mod c02;
pub mod c03;
pub mod c11;
pub mod c14;
pub mod c15;
