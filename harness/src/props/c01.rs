//! C01 - sender/receiver round trip: every sealed message opens to its plaintext; ciphertext
//! length = plaintext length + Nt; the in-place forms keep the buffer length and give a separate tag.

use super::common::*;
use crate::engine::{Obs, Property, Tier, Verdict};
use crate::ensure;
use crate::gen::{self, Session};
use crate::refmodel::hpke_ref::Suite;
use crate::suite::{Fail, ScriptRng};
use crate::util::{hex_short, Bytes};
use proptest::prelude::*;
use serde::{Deserialize, Serialize};

#[derive(Clone, Debug, PartialEq, Eq, Serialize, Deserialize)]
pub struct MsgApi {
    pub pt: Bytes,
    pub aad: Bytes,
    pub seal_in_place: bool,
    pub open_in_place: bool,
}

#[derive(Clone, Debug, Serialize, Deserialize)]
pub struct Case {
    pub sess: Session,
    /// key pairs produced by the library's own derive_keypair instead of the reference's
    pub lib_keys: bool,
    pub msgs: Vec<MsgApi>,
    /// additionally pair the single-shot forms with contexts for the first message:
    /// 1 = single_shot_seal -> setup_receiver + open; 2 = setup_sender + seal -> single_shot_open;
    /// 3 / 4 = the same with the in-place detached single-shot forms
    #[serde(default)]
    pub single_shot: u8,
}

pub struct P;

fn check(case: &Case, obs: &mut Obs) -> Verdict {
    let sess = &case.sess;
    let suite = sess.suite;
    let d = dsuite(sess);
    labels_for(sess, obs);
    let nt = suite.aead.nt();
    let mut keys = sess.keys();
    if case.lib_keys {
        obs.label("keys:library-derived");
        let (sk, pk) = d.derive_keypair(&sess.ikm_r);
        keys.sk_r = sk;
        keys.pk_r = pk;
        if sess.mode & 2 != 0 {
            let (sk, pk) = d.derive_keypair(&sess.ikm_s);
            keys.sk_s = sk;
            keys.pk_s = pk;
        }
    }
    let mut rng = ScriptRng::new(&sess.stream);
    let (enc, mut snd) = match d.setup_sender(&sess.mode_s(&keys), &keys.pk_r, &sess.info, &mut rng) {
        Ok(x) => x,
        Err(Fail::Construct(s, e)) => return Verdict::skip(format!("construction_failed({}:{:?})", s, e)),
        Err(Fail::Hpke(e)) => return Verdict::fail("C01/setup_sender/error", format!("setup_sender failed with {:?} on honest inputs ({} mode {})", e, suite.label(), sess.mode)),
    };
    let mut rcv = match d.setup_receiver(&sess.mode_r(&keys), &keys.sk_r, &enc, &sess.info) {
        Ok(x) => x,
        Err(Fail::Construct(s, e)) => return Verdict::skip(format!("construction_failed({}:{:?})", s, e)),
        Err(Fail::Hpke(e)) => return Verdict::fail("C01/setup_receiver/error", format!("setup_receiver failed with {:?} on the sender's own encapsulated key ({} mode {})", e, suite.label(), sess.mode)),
    };
    let odd = case.msgs.iter().any(|m| m.pt.is_empty() || m.pt.len() % 16 != 0);
    obs.nontrivial = (case.msgs.len() >= 2 && odd) || sess.mode != 0;
    for (i, m) in case.msgs.iter().enumerate() {
        // seal
        let (body, tag): (Vec<u8>, Vec<u8>) = if m.seal_in_place {
            let mut buf = m.pt.0.clone();
            match snd.seal_in_place(&mut buf, &m.aad) {
                Ok(tag) => {
                    ensure!(tag.len() == nt, "C01/seal-in-place/tag-length", "detached tag has {} bytes, Nt is {}", tag.len(), nt);
                    ensure!(buf.len() == m.pt.len(), "C01/seal-in-place/buffer-length", "in-place buffer length changed");
                    (buf, tag)
                }
                Err(e) => return Verdict::fail("C01/seal/error", format!("seal_in_place_detached #{} failed: {:?}", i, e)),
            }
        } else {
            match snd.seal(&m.pt, &m.aad) {
                Ok(ct) => {
                    ensure!(
                        ct.len() == m.pt.len() + nt,
                        "C01/seal/ciphertext-length",
                        "ciphertext #{} has {} bytes for a {}-byte plaintext; expected plaintext length + Nt = {}",
                        i, ct.len(), m.pt.len(), m.pt.len() + nt
                    );
                    let split = ct.len() - nt;
                    (ct[..split].to_vec(), ct[split..].to_vec())
                }
                Err(e) => return Verdict::fail("C01/seal/error", format!("seal #{} failed: {:?}", i, e)),
            }
        };
        obs.inner_checks += 2;
        // open
        let api = format!("seal:{}/open:{}", if m.seal_in_place { "in-place" } else { "alloc" }, if m.open_in_place { "in-place" } else { "alloc" });
        if m.open_in_place {
            let mut buf = body.clone();
            match rcv.open_in_place(&mut buf, &m.aad, &tag) {
                Ok(()) => ensure!(
                    buf == m.pt.0,
                    "C01/open/wrong-plaintext",
                    "message #{} ({}) opened in place to {} instead of {} ({} mode {})",
                    i, api, hex_short(&buf), hex_short(&m.pt), suite.label(), sess.mode
                ),
                Err(f) => return Verdict::fail("C01/open/rejected", format!("message #{} ({}, {} bytes), delivered in order, was rejected: {:?} ({} mode {})", i, api, m.pt.len(), f, suite.label(), sess.mode)),
            }
        } else {
            let mut ct = body.clone();
            ct.extend_from_slice(&tag);
            match rcv.open(&ct, &m.aad) {
                Ok(pt) => ensure!(
                    pt == m.pt.0,
                    "C01/open/wrong-plaintext",
                    "message #{} ({}) opened to {} instead of {} ({} mode {})",
                    i, api, hex_short(&pt), hex_short(&m.pt), suite.label(), sess.mode
                ),
                Err(e) => return Verdict::fail("C01/open/rejected", format!("message #{} ({}, {} bytes), delivered in order, was rejected: {:?} ({} mode {})", i, api, m.pt.len(), e, suite.label(), sess.mode)),
            }
        }
    }
    if case.single_shot != 0 && !case.msgs.is_empty() {
        let m = &case.msgs[0];
        obs.label(format!("single-shot-pairing:{}", case.single_shot));
        let ms = sess.mode_s(&keys);
        let mr = sess.mode_r(&keys);
        let mut rng = ScriptRng::new(&sess.stream);
        obs.inner_checks += 1;
        let fail = |what: &str, got: String| Verdict::fail("C01/single-shot-pairing", format!("{}: {} ({} mode {}, info {} aad {})", what, got, suite.label(), sess.mode, hex_short(&sess.info), hex_short(&m.aad)));
        match case.single_shot {
            1 => {
                // single-shot sender, context receiver
                let (enc, ct) = match d.single_shot_seal(&ms, &keys.pk_r, &sess.info, &m.pt, &m.aad, &mut rng) {
                    Ok(x) => x,
                    Err(f) => return fail("single_shot_seal failed on honest inputs", format!("{:?}", f)),
                };
                ensure!(ct.len() == m.pt.len() + nt, "C01/seal/ciphertext-length", "single_shot_seal ciphertext has {} bytes for a {}-byte plaintext", ct.len(), m.pt.len());
                let got = d.setup_receiver(&mr, &keys.sk_r, &enc, &sess.info).map_err(|f| format!("{:?}", f)).and_then(|mut r| r.open(&ct, &m.aad).map_err(|e| format!("{:?}", e)));
                if got.as_ref() != Ok(&m.pt.0) {
                    return fail("a message sealed by single_shot_seal is not opened to its plaintext by setup_receiver + open", format!("{:?}", got.map(|p| hex_short(&p))));
                }
            }
            2 => {
                let (enc, ct) = match d.setup_sender(&ms, &keys.pk_r, &sess.info, &mut rng).map_err(|f| format!("{:?}", f)).and_then(|(e, mut s)| s.seal(&m.pt, &m.aad).map(|c| (e, c)).map_err(|e| format!("{:?}", e))) {
                    Ok(x) => x,
                    Err(e) => return fail("setup_sender + seal failed on honest inputs", e),
                };
                let got = d.single_shot_open(&mr, &keys.sk_r, &enc, &sess.info, &ct, &m.aad);
                if got.as_ref() != Ok(&m.pt.0) {
                    return fail("a message sealed by setup_sender + seal is not opened to its plaintext by single_shot_open", format!("{:?}", got.map(|p| hex_short(&p))));
                }
            }
            3 => {
                let mut buf = m.pt.0.clone();
                let (enc, tag) = match d.single_shot_seal_in_place(&ms, &keys.pk_r, &sess.info, &mut buf, &m.aad, &mut rng) {
                    Ok(x) => x,
                    Err(f) => return fail("single_shot_seal_in_place_detached failed on honest inputs", format!("{:?}", f)),
                };
                let got = d.setup_receiver(&mr, &keys.sk_r, &enc, &sess.info).map_err(|f| format!("{:?}", f)).and_then(|mut r| r.open_in_place(&mut buf, &m.aad, &tag).map_err(|e| format!("{:?}", e)));
                if got != Ok(()) || buf != m.pt.0 {
                    return fail("a message sealed by single_shot_seal_in_place_detached is not opened by setup_receiver + open_in_place_detached", format!("{:?}", got));
                }
            }
            _ => {
                let r0 = d.setup_sender(&ms, &keys.pk_r, &sess.info, &mut rng);
                let (enc, mut s) = match r0 {
                    Ok(x) => x,
                    Err(f) => return fail("setup_sender failed on honest inputs", format!("{:?}", f)),
                };
                let mut buf = m.pt.0.clone();
                let tag = match s.seal_in_place(&mut buf, &m.aad) {
                    Ok(t) => t,
                    Err(e) => return fail("seal_in_place_detached failed", format!("{:?}", e)),
                };
                let got = d.single_shot_open_in_place(&mr, &keys.sk_r, &enc, &sess.info, &mut buf, &m.aad, &tag);
                if got != Ok(()) || buf != m.pt.0 {
                    return fail("a message sealed by setup_sender + seal_in_place_detached is not opened by single_shot_open_in_place_detached", format!("{:?}", got));
                }
            }
        }
    }
    Verdict::Pass
}

impl Property for P {
    type Case = Case;
    fn id(&self) -> &'static str {
        "C01"
    }
    fn rule(&self) -> String {
        "Generated: (one of 36 sealing suites, mode, ikmR, ikmS, psk, psk_id, info, RNG stream, 1..=12 messages with edge-biased pt/aad lengths incl. empty and block-straddling, per message alloc/in-place choice on each side; key pairs from the reference or from the library's own derive_keypair). \
         Swept: all 36x4 suite/mode cells with a 4-message script mixing both APIs, plus the empty PSK bundle in every Psk/AuthPsk cell (the library accepts it; 15% of the generated cases use it too); every plaintext length and every aad length 0..=1100 per sealing AEAD, interface forms rotating. \
         In 40% of the cases the first message is additionally exchanged with one side using a single-shot form and the other a context (all four pairings). Oracle: the receiver built from (enc, skR, info, matching mode) opens message i, in order, to exactly pt_i; |ct| = |pt| + Nt; in-place keeps the length and returns an Nt-byte tag. \
         Non-trivial: (>=2 messages and one of length 0 or not a multiple of 16) or a non-Base mode."
            .into()
    }
    fn assumptions(&self) -> Vec<String> {
        vec!["message lengths above 1 MiB and sequences longer than 12 are not generated (C04/C05 cover long histories)".into()]
    }
    fn strategy(&self, tier: Tier) -> BoxedStrategy<Case> {
        let big = tier.pick(5000usize, 70000usize);
        let m = (prop_oneof![8 => gen::bytes(300), 1 => gen::bytes(big)], gen::bytes(300), any::<bool>(), any::<bool>())
            .prop_map(|(pt, aad, seal_in_place, open_in_place)| MsgApi { pt, aad, seal_in_place, open_in_place });
        // the library also accepts the empty bundle in Psk/AuthPsk mode: part of "all psk, psk_id
        // byte strings including empty ones"
        (gen::session_sealing(), prop::bool::weighted(0.3), proptest::collection::vec(m, 1..=12), prop::bool::weighted(0.15), prop_oneof![3 => Just(0u8), 2 => 1u8..=4])
            .prop_map(|(mut sess, lib_keys, msgs, empty_bundle, single_shot)| {
                if empty_bundle {
                    sess.psk = Bytes::default();
                    sess.psk_id = Bytes::default();
                }
                Case { sess, lib_keys, msgs, single_shot }
            })
            .boxed()
    }
    fn cases(&self, tier: Tier) -> u32 {
        tier.pick(20000, 200000)
    }
    fn sweeps(&self, _tier: Tier) -> Vec<(String, Vec<Case>)> {
        let mut cells = Vec::new();
        for (s, m) in gen::all_cells(&Suite::sealing36()) {
            let mk = |n: usize, a: usize, si: bool, oi: bool| MsgApi { pt: Bytes(gen::fill(n, 5, n as u64)), aad: Bytes(gen::fill(a, 5, 77)), seal_in_place: si, open_in_place: oi };
            cells.push(Case { sess: gen::cell_session(s, m, 1), lib_keys: m % 2 == 1, msgs: vec![mk(29, 7, false, false), mk(0, 16, true, false), mk(17, 0, false, true), mk(64, 3, true, true)], single_shot: 1 + (m % 4) });
            if m & 1 != 0 {
                let mut e = gen::cell_session(s, m, 3);
                e.psk = Bytes::default();
                e.psk_id = Bytes::default();
                cells.push(Case { sess: e, lib_keys: false, msgs: vec![mk(0, 0, false, false), mk(5, 1, true, true), mk(16, 0, false, true)], single_shot: 2 });
            }
        }
        // every plaintext length and every aad length 0..=1100 per sealing AEAD (20 messages per
        // session, interface forms rotating so that every length meets several form pairs)
        let mut dense = Vec::new();
        for (ai, aead) in crate::refmodel::hpke_ref::AeadId::SEALING.into_iter().enumerate() {
            let s = Suite { kem: crate::refmodel::hpke_ref::KemId::X25519, kdf: crate::refmodel::hpke_ref::KdfId::ALL[ai % 3], aead };
            let mut from = 0usize;
            while from <= 1100 {
                let to = (from + 19).min(1100);
                let by_pt: Vec<MsgApi> = (from..=to).map(|n| MsgApi { pt: Bytes(gen::fill(n, 5, n as u64)), aad: Bytes(gen::fill(n % 9, 5, 78)), seal_in_place: (n + ai) % 2 == 0, open_in_place: (n / 2 + ai) % 2 == 0 }).collect();
                let by_aad: Vec<MsgApi> = (from..=to).map(|n| MsgApi { pt: Bytes(gen::fill(n % 7, 5, n as u64)), aad: Bytes(gen::fill(n, 5, 79)), seal_in_place: (n / 2 + ai) % 2 == 0, open_in_place: (n + ai) % 2 == 0 }).collect();
                dense.push(Case { sess: gen::cell_session(s, (from / 20 % 4) as u8, 4), lib_keys: false, msgs: by_pt, single_shot: 0 });
                dense.push(Case { sess: gen::cell_session(s, ((from / 20 + 1) % 4) as u8, 5), lib_keys: false, msgs: by_aad, single_shot: 0 });
                from = to + 1;
            }
        }
        vec![("suite_x_mode_cells".into(), cells), ("every_plaintext_and_aad_length_per_aead".into(), dense)]
    }
    fn check(&self, case: &Case, obs: &mut Obs) -> Verdict {
        check(case, obs)
    }
}
