//! C11 - secret export is pure, symmetric, RFC-exact and length-limited at 255*Nh.

use super::common::*;
use crate::engine::{catch, pick_index, Obs, Property, Tier, Verdict};
use crate::ensure;
use crate::gen::{self, Msg, Session};
use crate::refmodel::hpke_ref::{self as r, KdfId, Suite};
use crate::util::{hex_short, Bytes};
use hpke::HpkeError;
use proptest::prelude::*;
use serde::{Deserialize, Serialize};

#[derive(Clone, Debug, PartialEq, Eq, Serialize, Deserialize)]
pub enum Op {
    /// export on the sender (side 0) or receiver (side 1)
    Export { side: u8, ctx: Bytes, len: usize },
    /// the sender seals a message (kept for later delivery)
    Seal(Msg),
    /// the receiver is handed the next undelivered message
    OpenNext,
    /// the receiver is handed a corrupted copy of the next message (rejected; nothing consumed)
    OpenTampered { flip: u16 },
    /// the receiver is handed an already delivered message again (rejected)
    OpenReplay { which: u16 },
    /// both contexts are positioned at sequence number 2^64-1 (hook) and one last message is sealed
    /// and opened, so that both are exhausted; exports must be unaffected
    Exhaust,
}

#[derive(Clone, Debug, Serialize, Deserialize)]
pub enum Case {
    History { sess: Session, ops: Vec<Op> },
    /// every L in from..=to on both sides of one context
    Lrange { sess: Session, ctx: Bytes, from: usize, to: usize },
}

pub struct P;

pub fn boundary_lens(nh: usize) -> Vec<usize> {
    let m = 255 * nh;
    vec![0, 1, nh - 1, nh, nh + 1, m - 1, m, m + 1, m + 2, 65534, 65535, 65536, 65537, 100_000]
}

fn op_strategy(nh: usize) -> BoxedStrategy<Op> {
    let len = prop_oneof![
        5 => 0usize..=100,
        3 => proptest::sample::select(boundary_lens(nh)),
        1 => 0usize..=(255 * nh + 64),
    ];
    prop_oneof![
        5 => (0u8..2, prop_oneof![
                25 => gen::bytes(300),
                1 => (proptest::sample::select(vec![65535usize, 65536, 65537, 70000]), 0u8..9, any::<u64>()).prop_map(|(l, k, s)| Bytes(gen::fill(l, k, s))),
            ], len).prop_map(|(side, ctx, len)| Op::Export { side, ctx, len }),
        3 => gen::msg(200).prop_map(Op::Seal),
        2 => Just(Op::OpenNext),
        1 => any::<u16>().prop_map(|flip| Op::OpenTampered { flip }),
        1 => any::<u16>().prop_map(|which| Op::OpenReplay { which }),
        1 => Just(Op::Exhaust),
    ]
    .boxed()
}

fn export_oracle(ks: &r::KeySched, ctx: &[u8], len: usize) -> Result<Vec<u8>, HpkeError> {
    ks.export(ctx, len).ok_or(HpkeError::KdfOutputTooLong)
}

fn check_export(who: &str, got: Result<Vec<u8>, HpkeError>, ks: &r::KeySched, ctx: &[u8], len: usize, suite: Suite, after: &str) -> Verdict {
    let want = export_oracle(ks, ctx, len);
    let nh = suite.kdf.nh();
    match (&got, &want) {
        (Ok(g), Ok(w)) => {
            ensure!(g.len() == len, "C11/export/length", "{} export returned {} bytes for L={}", who, g.len(), len);
            ensure!(
                g == w,
                "C11/export/value",
                "{} export(ctx len {}, L={}) {} differs from LabeledExpand(exporter_secret, \"sec\", ctx, L) = {} ({}, after {})",
                who, ctx.len(), len, hex_short(g), hex_short(w), suite.label(), after
            );
        }
        (Err(e), Err(_)) => {
            ensure!(*e == HpkeError::KdfOutputTooLong, "C11/export/error-kind", "{} export with L={} > 255*Nh={} failed with {:?}, expected KdfOutputTooLong", who, len, 255 * nh, e);
        }
        (Ok(_), Err(_)) => {
            return Verdict::fail("C11/export/limit-not-enforced", format!("{} export succeeded for L={} > 255*Nh={} ({})", who, len, 255 * nh, suite.label()));
        }
        (Err(e), Ok(_)) => {
            return Verdict::fail("C11/export/refused-legal-length", format!("{} export failed with {:?} for L={} <= 255*Nh={} ({})", who, e, len, 255 * nh, suite.label()));
        }
    }
    Verdict::Pass
}

fn check_history(sess: &Session, ops: &[Op], obs: &mut Obs) -> Verdict {
    let suite = sess.suite;
    let d = dsuite(sess);
    let keys = sess.keys();
    labels_for(sess, obs);
    let ikm_e = sess.ikm_e();
    let Some((_, ks)) = r::setup_s(&sess.sender_in(&keys, &ikm_e)) else { return Verdict::skip("reference SetupS rejects the inputs") };
    let (enc, mut snd) = match honest_sender(d, sess, &keys) {
        Ok(x) => x,
        Err(v) => return v,
    };
    let mut rcv = match honest_receiver(d, sess, &keys, &enc) {
        Ok(x) => x,
        Err(v) => return v,
    };
    let sealing = suite.aead.sealing();
    let mut sealed: Vec<(Vec<u8>, Msg)> = Vec::new();
    let mut delivered = 0usize;
    let mut touched = [false, false];
    let mut exhausted = false;
    let mut last = "setup".to_string();
    let nh = suite.kdf.nh();
    for op in ops {
        match op {
            Op::Export { side, ctx, len } => {
                let got = if *side == 0 { snd.export(ctx, *len) } else { rcv.export(ctx, *len) };
                // repeatability
                let again = if *side == 0 { snd.export(ctx, *len) } else { rcv.export(ctx, *len) };
                obs.inner_checks += 2;
                ensure!(got == again, "C11/export/not-repeatable", "two identical export calls returned different results (L={})", len);
                let third = if *side == 0 { snd.export(ctx, *len) } else { rcv.export(ctx, *len) };
                ensure!(got == third, "C11/export/not-repeatable", "the third identical export call returned a different result (L={})", len);
                let who = if *side == 0 { "sender" } else { "receiver" };
                let v = check_export(who, got, &ks, ctx, *len, suite, &last);
                if v != Verdict::Pass {
                    return v;
                }
                if touched[*side as usize] {
                    obs.nontrivial = true;
                    obs.label("export-after-traffic");
                }
                let m = 255 * nh;
                if (*len as i64 - m as i64).abs() <= 2 || (*len as i64 - 65536).abs() <= 2 {
                    obs.nontrivial = true;
                    obs.label("export-at-boundary");
                }
            }
            Op::Exhaust => {
                if sealing && !exhausted {
                    // deliver everything outstanding first, then jump both sides to the last position
                    while delivered < sealed.len() {
                        let (ct, m) = &sealed[delivered];
                        let _ = rcv.open(ct, &m.aad);
                        delivered += 1;
                    }
                    snd.set_seq(u64::MAX);
                    rcv.set_seq(u64::MAX);
                    if let Ok(ct) = snd.seal(b"last message", b"") {
                        let _ = rcv.open(&ct, b"");
                    }
                    exhausted = true;
                    touched = [true, true];
                    last = "exhaustion of both contexts".into();
                    obs.label("exhausted");
                }
            }
            Op::Seal(m) => {
                touched[0] = true;
                if sealing {
                    match snd.seal(&m.pt, &m.aad) {
                        Ok(ct) => sealed.push((ct, m.clone())),
                        Err(HpkeError::MessageLimitReached) if exhausted => {}
                        Err(e) => return Verdict::skip(format!("construction_failed(seal:{:?})", e)),
                    }
                    last = "seal".into();
                } else {
                    // export-only: seal must panic and produce nothing
                    let r1 = catch(|| snd.seal(&m.pt, &m.aad));
                    ensure!(r1.is_err(), "C11/export-only/seal-did-not-panic", "seal on an export-only context returned {:?} instead of panicking", r1.map(|x| x.map(|c| c.len())));
                    let mut buf = m.pt.0.clone();
                    let r2 = catch(|| snd.seal_in_place(&mut buf, &m.aad));
                    ensure!(r2.is_err(), "C11/export-only/seal-did-not-panic", "seal_in_place_detached on an export-only context did not panic");
                    obs.label("export-only-seal-panics");
                    last = "panicking seal".into();
                }
            }
            Op::OpenNext | Op::OpenTampered { .. } | Op::OpenReplay { .. } => {
                touched[1] = true;
                if !sealing {
                    let r1 = catch(|| rcv.open(&[0u8; 20], b""));
                    ensure!(r1.is_err(), "C11/export-only/open-did-not-panic", "open on an export-only context returned {:?} instead of panicking", r1.map(|x| x.map(|c| c.len())));
                    let mut buf = vec![1u8; 8];
                    let r2 = catch(|| rcv.open_in_place(&mut buf, b"", &[]));
                    ensure!(r2.is_err(), "C11/export-only/open-did-not-panic", "open_in_place_detached on an export-only context did not panic");
                    obs.label("export-only-open-panics");
                    last = "panicking open".into();
                    continue;
                }
                match op {
                    Op::OpenNext => {
                        if delivered < sealed.len() {
                            let (ct, m) = &sealed[delivered];
                            let _ = rcv.open(ct, &m.aad);
                            delivered += 1;
                            last = "open".into();
                        }
                    }
                    Op::OpenTampered { flip } => {
                        if delivered < sealed.len() {
                            let (ct, m) = &sealed[delivered];
                            let mut bad = ct.clone();
                            let i = pick_index(*flip, bad.len());
                            bad[i] ^= 0x20;
                            let _ = rcv.open(&bad, &m.aad);
                            last = "rejected open".into();
                        }
                    }
                    Op::OpenReplay { which } => {
                        if delivered > 0 {
                            let (ct, m) = &sealed[pick_index(*which, delivered)];
                            let _ = rcv.open(ct, &m.aad);
                            last = "rejected replay".into();
                        }
                    }
                    _ => unreachable!(),
                }
            }
        }
    }
    Verdict::Pass
}

fn check_lrange(sess: &Session, ctx: &[u8], from: usize, to: usize, obs: &mut Obs) -> Verdict {
    let suite = sess.suite;
    let d = dsuite(sess);
    let keys = sess.keys();
    labels_for(sess, obs);
    obs.nontrivial = true;
    let ikm_e = sess.ikm_e();
    let Some((_, ks)) = r::setup_s(&sess.sender_in(&keys, &ikm_e)) else { return Verdict::skip("reference SetupS rejects the inputs") };
    let (enc, snd) = match honest_sender(d, sess, &keys) {
        Ok(x) => x,
        Err(v) => return v,
    };
    let rcv = match honest_receiver(d, sess, &keys, &enc) {
        Ok(x) => x,
        Err(v) => return v,
    };
    for len in from..=to {
        obs.inner_checks += 2;
        let v = check_export("sender", snd.export(ctx, len), &ks, ctx, len, suite, "setup");
        if v != Verdict::Pass {
            return v;
        }
        let v = check_export("receiver", rcv.export(ctx, len), &ks, ctx, len, suite, "setup");
        if v != Verdict::Pass {
            return v;
        }
    }
    Verdict::Pass
}

impl Property for P {
    type Case = Case;
    fn id(&self) -> &'static str {
        "C11"
    }
    fn rule(&self) -> String {
        "Generated: (suite of 48, mode, session) with histories interleaving exports on either side (exporter contexts up to 300 bytes and, rarely, 65535..70000 bytes; L from boundaries {0,1,Nh+-1,255Nh+-1,65535+-1,100000} and uniform) with seals, opens, rejected deliveries, exhaustion of both contexts at 2^64-1 (hook), and panicking seal/open attempts on export-only suites. \
         Swept: 48x4 cells; every L in 0..=400 and within 40 of 255*Nh and of 2^16 for each KDF (thorough: every L in 0..=66000 per KDF); every exporter-context length 0..=1100 (thorough 0..=4200) per KDF with a one-block and a multi-block L, alternating sides; exporter contexts found by search for which the RFC value of a 1- or 2-byte export is all-zero. \
         Oracle: reference LabeledExpand(exporter_secret_ref, \"sec\", ctx, L); Ok iff L<=255*Nh else KdfOutputTooLong; repeatable; sender==receiver. \
         Non-trivial: an export after traffic on the same context, or L within 2 of a boundary, or an L-range sweep."
            .into()
    }
    fn assumptions(&self) -> Vec<String> {
        vec!["sha2 correct; reference key schedule pinned by anchors and golden vectors at start-up".into()]
    }
    fn prelude(&self, _tier: Tier) -> Result<Vec<String>, String> {
        let rep = crate::refmodel::selfcheck::oracle_selfcheck(2)?;
        Ok(vec![format!("oracle self-check: {} anchors, {} golden vectors", rep.anchors, rep.golden)])
    }
    fn strategy(&self, _tier: Tier) -> BoxedStrategy<Case> {
        gen::session_any()
            .prop_flat_map(|sess| {
                let nh = sess.suite.kdf.nh();
                (Just(sess), proptest::collection::vec(op_strategy(nh), 1..=14))
            })
            .prop_map(|(sess, ops)| Case::History { sess, ops })
            .boxed()
    }
    fn cases(&self, tier: Tier) -> u32 {
        tier.pick(8000, 80000)
    }
    fn sweeps(&self, tier: Tier) -> Vec<(String, Vec<Case>)> {
        let mut cells = Vec::new();
        for (s, m) in gen::all_cells(&Suite::all48()) {
            let nh = s.kdf.nh();
            let mut ops = vec![Op::Export { side: 0, ctx: Bytes(b"a".to_vec()), len: 32 }];
            for msg in gen::fixed_msgs(11) {
                ops.push(Op::Seal(msg));
            }
            ops.push(Op::OpenNext);
            ops.push(Op::OpenTampered { flip: 7 });
            ops.push(Op::OpenReplay { which: 0 });
            for (i, l) in boundary_lens(nh).into_iter().enumerate() {
                ops.push(Op::Export { side: (i % 2) as u8, ctx: Bytes(gen::fill(i, 5, 3)), len: l });
            }
            // exporter contexts around 2^16 bytes, both roles
            if m == 0 || s.aead == r::AeadId::Export {
                for (i, cl) in [65535usize, 65536, 65537].into_iter().enumerate() {
                    ops.push(Op::Export { side: (i % 2) as u8, ctx: Bytes(gen::fill(cl, 5, 9)), len: 16 });
                    ops.push(Op::Export { side: ((i + 1) % 2) as u8, ctx: Bytes(gen::fill(cl, 5, 9)), len: 255 * nh + 1 });
                }
            }
            ops.push(Op::Exhaust);
            ops.push(Op::Export { side: 0, ctx: Bytes(b"after".to_vec()), len: 32 });
            ops.push(Op::Export { side: 1, ctx: Bytes(b"after".to_vec()), len: nh + 1 });
            cells.push(Case::History { sess: gen::cell_session(s, m, 11), ops });
        }
        let mut ranges = Vec::new();
        for kdf in KdfId::ALL {
            let s = Suite { kem: r::KemId::X25519, kdf, aead: r::AeadId::Export };
            let sess = gen::cell_session(s, 0, 12);
            let nh = kdf.nh();
            let ctx = Bytes(b"every-L".to_vec());
            match tier {
                Tier::Quick => {
                    ranges.push(Case::Lrange { sess: sess.clone(), ctx: ctx.clone(), from: 0, to: 400 });
                    ranges.push(Case::Lrange { sess: sess.clone(), ctx: ctx.clone(), from: 255 * nh - 40, to: 255 * nh + 40 });
                    ranges.push(Case::Lrange { sess: sess.clone(), ctx: ctx.clone(), from: 65536 - 40, to: 65536 + 40 });
                }
                Tier::Thorough => {
                    let mut from = 0usize;
                    while from <= 66000 {
                        let to = (from + 249).min(66000);
                        ranges.push(Case::Lrange { sess: sess.clone(), ctx: ctx.clone(), from, to });
                        from = to + 1;
                    }
                }
            }
        }
        // every exporter-context length 0..=1100 (quick) / 0..=4200 (thorough), each with a one-block
        // and a multi-block output length, alternating sides: an implementation that assembles the
        // labeled info in a fixed buffer goes wrong at lengths only a dense sweep contains
        let mut ctxlens = Vec::new();
        let top = match tier {
            Tier::Quick => 1100usize,
            Tier::Thorough => 4200,
        };
        for (ki, kdf) in KdfId::ALL.into_iter().enumerate() {
            let s = Suite { kem: r::KemId::X25519, kdf, aead: if ki == 1 { r::AeadId::Export } else { r::AeadId::ChaCha } };
            let sess = gen::cell_session(s, ki as u8, 13);
            let nh = kdf.nh();
            let mut from = 0usize;
            while from <= top {
                let to = (from + 99).min(top);
                let mut ops = Vec::new();
                for cl in from..=to {
                    ops.push(Op::Export { side: (cl % 2) as u8, ctx: Bytes(gen::fill(cl, 5, 31 + cl as u64)), len: 16 });
                    ops.push(Op::Export { side: ((cl + 1) % 2) as u8, ctx: Bytes(gen::fill(cl, 5, 31 + cl as u64)), len: nh + 1 + cl % 40 });
                }
                ctxlens.push(Case::History { sess: sess.clone(), ops });
                from = to + 1;
            }
        }
        // exports whose RFC value is all-zero (L = 1: 2^-8, L = 2: 2^-16 per exporter context; found by
        // searching exporter contexts against the reference): a value is a value, an implementation
        // that treats an all-zero output as a failure (as the X25519 DH check does) refuses these
        let mut zeros = Vec::new();
        for (ki, kdf) in KdfId::ALL.into_iter().enumerate() {
            let s = Suite { kem: r::KemId::X25519, kdf, aead: if ki == 0 { r::AeadId::Export } else { r::AeadId::ChaCha } };
            let sess = gen::cell_session(s, ki as u8, 14);
            let keys = sess.keys();
            let ikm_e = sess.ikm_e();
            let Some((_, ks)) = r::setup_s(&sess.sender_in(&keys, &ikm_e)) else { continue };
            let mut ops = Vec::new();
            let (mut n1, mut n2) = (0, 0);
            let budget = match tier {
                Tier::Quick => 400_000u32,
                Tier::Thorough => 4_000_000,
            };
            for i in 0..budget {
                let ctx = format!("zero-search-{}", i).into_bytes();
                if n1 < 3 && ks.export(&ctx, 1).map_or(false, |v| v == [0]) {
                    n1 += 1;
                    ops.push(Op::Export { side: (n1 % 2) as u8, ctx: Bytes(ctx.clone()), len: 1 });
                }
                if ks.export(&ctx, 2).map_or(false, |v| v == [0, 0]) {
                    n2 += 1;
                    ops.push(Op::Export { side: 0, ctx: Bytes(ctx.clone()), len: 2 });
                    ops.push(Op::Export { side: 1, ctx: Bytes(ctx), len: 2 });
                    if n2 >= 2 {
                        break;
                    }
                }
            }
            if !ops.is_empty() {
                zeros.push(Case::History { sess, ops });
            }
        }
        vec![("suite_x_mode_cells".into(), cells), ("export_length_ranges".into(), ranges), ("every_exporter_context_length".into(), ctxlens), ("exports_whose_value_is_all_zero".into(), zeros)]
    }
    fn check(&self, case: &Case, obs: &mut Obs) -> Verdict {
        match case {
            Case::History { sess, ops } => check_history(sess, ops, obs),
            Case::Lrange { sess, ctx, from, to } => check_lrange(sess, ctx, *from, *to, obs),
        }
    }
}
