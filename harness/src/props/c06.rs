//! C06 - integrity: any modification of ciphertext, tag or associated data is rejected, on every
//! opening interface.

use super::common::*;
use crate::engine::{Extra, Obs, Property, Tier, Verdict};
use crate::gen::{self, Msg, Session};
use crate::refmodel::hpke_ref::{AeadId, Suite};
use crate::suite::{DynReceiver, DynSuite, Fail};
use crate::util::{hex_short, mix, Bytes};
use hpke::HpkeError;
use proptest::prelude::*;
use serde::{Deserialize, Serialize};

#[derive(Clone, Debug, Serialize, Deserialize)]
pub struct Case {
    pub sess: Session,
    pub msgs: Vec<Msg>,
    /// selects the sampled bit positions for messages longer than 96 bytes
    pub variant_seed: u64,
    /// sequence position of the first message (both contexts are placed there through the hook)
    #[serde(default)]
    pub start: u64,
    /// additionally seal this many empty-plaintext messages (distinct aad) and try every truncation
    /// of each: a rejected-by-luck tag pattern (e.g. a tag ending in 0x00) needs many tags
    #[serde(default)]
    pub empty_messages: u16,
}

pub struct P;

struct Variant {
    what: String,
    ct: Vec<u8>,
    aad: Vec<u8>,
}

/// The family of modified (ciphertext||tag, aad) pairs for message `i`
fn variants(i: usize, sealed: &[(Vec<u8>, Msg)], seed: u64, nt: usize) -> (Vec<Variant>, bool) {
    let (ct, m) = &sealed[i];
    let aad = &m.aad.0;
    let mut v = Vec::new();
    let mut exhaustive = true;
    // single-bit flips of ciphertext||tag
    let nbits = ct.len() * 8;
    let positions: Vec<usize> = if ct.len() <= 96 {
        (0..nbits).collect()
    } else {
        exhaustive = false;
        // all tag bits plus 256 sampled body positions
        let mut p: Vec<usize> = ((ct.len() - nt) * 8..nbits).collect();
        let mut s = seed ^ (i as u64);
        for _ in 0..256 {
            s = mix(s);
            p.push((s % ((ct.len() - nt) as u64 * 8)) as usize);
        }
        p
    };
    for b in positions {
        let mut c = ct.clone();
        c[b / 8] ^= 1 << (b % 8);
        let region = if b / 8 >= ct.len() - nt { "tag" } else { "body" };
        v.push(Variant { what: format!("bit {} of the {} flipped", b, region), ct: c, aad: aad.clone() });
    }
    // single-bit flips of the aad
    let abits = aad.len() * 8;
    let apos: Vec<usize> = if aad.len() <= 96 {
        (0..abits).collect()
    } else {
        exhaustive = false;
        let mut s = seed ^ 0xaad ^ (i as u64);
        (0..256)
            .map(|_| {
                s = mix(s);
                (s % abits as u64) as usize
            })
            .collect()
    };
    for b in apos {
        let mut a = aad.clone();
        a[b / 8] ^= 1 << (b % 8);
        v.push(Variant { what: format!("bit {} of the aad flipped", b), ct: ct.clone(), aad: a });
    }
    // every truncation
    let tr: Vec<usize> = if ct.len() <= 300 { (0..ct.len()).collect() } else { (0..nt + 2).chain((ct.len() - nt - 2)..ct.len()).collect() };
    for l in tr {
        v.push(Variant { what: format!("truncated to {} of {} bytes", l, ct.len()), ct: ct[..l].to_vec(), aad: aad.clone() });
    }
    // extensions by 1..=17 bytes: zeros, pattern, a copy of the tag
    let tag = ct[ct.len() - nt..].to_vec();
    for n in 1..=17usize {
        for (k, fillb) in [(0u8, "zero"), (1u8, "pattern")] {
            let mut c = ct.clone();
            c.extend((0..n).map(|j| if k == 0 { 0 } else { (seed as u8).wrapping_add(j as u8) | 1 }));
            v.push(Variant { what: format!("{} {} bytes appended", n, fillb), ct: c, aad: aad.clone() });
        }
        let mut c = ct.clone();
        c.extend(tag.iter().cycle().take(n));
        v.push(Variant { what: format!("{} bytes of the tag appended again", n), ct: c, aad: aad.clone() });
        // and prepended (shifts the body)
        let mut c = vec![0u8; n];
        c.extend_from_slice(ct);
        v.push(Variant { what: format!("{} zero bytes prepended", n), ct: c, aad: aad.clone() });
    }
    // aad length changes
    if !aad.is_empty() {
        v.push(Variant { what: "aad replaced by the empty string".into(), ct: ct.clone(), aad: vec![] });
        v.push(Variant { what: "last aad byte dropped".into(), ct: ct.clone(), aad: aad[..aad.len() - 1].to_vec() });
    }
    let mut a = aad.clone();
    a.push(0);
    v.push(Variant { what: "a zero byte appended to the aad".into(), ct: ct.clone(), aad: a });
    // cross-message substitutions within the same context
    for (j, (ctj, mj)) in sealed.iter().enumerate() {
        if j == i {
            continue;
        }
        if mj.aad != m.aad {
            v.push(Variant { what: format!("aad of message {} substituted", j), ct: ct.clone(), aad: mj.aad.0.clone() });
        }
        let tagj = &ctj[ctj.len() - nt..];
        if tagj != &tag[..] {
            let mut c = ct[..ct.len() - nt].to_vec();
            c.extend_from_slice(tagj);
            v.push(Variant { what: format!("tag of message {} substituted", j), ct: c, aad: aad.clone() });
        }
        if ctj != ct {
            // the whole ciphertext of another message presented at this position, with either aad
            v.push(Variant { what: format!("ciphertext of message {} presented at position {}", j, i), ct: ctj.clone(), aad: mj.aad.0.clone() });
            v.push(Variant { what: format!("ciphertext of message {} with this message's aad", j), ct: ctj.clone(), aad: aad.clone() });
        }
    }
    (v, exhaustive)
}

fn fresh_receiver(d: &dyn DynSuite, sess: &Session, keys: &gen::Keys, enc: &[u8], sealed: &[(Vec<u8>, Msg)], pos: usize, start: u64) -> Result<Box<dyn DynReceiver>, Verdict> {
    let mut rcv = honest_receiver(d, sess, keys, enc)?;
    rcv.set_seq(start);
    for (ct, m) in &sealed[..pos] {
        match rcv.open(ct, &m.aad) {
            Ok(p) if p == m.pt.0 => {}
            other => return Err(Verdict::skip(format!("construction_failed(honest open while advancing: {:?})", other.map(|p| p.len())))),
        }
    }
    Ok(rcv)
}

fn check(case: &Case, obs: &mut Obs) -> Verdict {
    let sess = &case.sess;
    let suite = sess.suite;
    let d = dsuite(sess);
    labels_for(sess, obs);
    let nt = suite.aead.nt();
    let keys = sess.keys();
    let (enc, mut snd) = match honest_sender(d, sess, &keys) {
        Ok(x) => x,
        Err(v) => return v,
    };
    let start = case.start;
    if start != 0 {
        obs.label("start-position-nonzero");
    }
    snd.set_seq(start);
    let mut sealed: Vec<(Vec<u8>, Msg)> = Vec::new();
    for m in &case.msgs {
        match snd.seal(&m.pt, &m.aad) {
            Ok(ct) if ct.len() == m.pt.len() + nt => sealed.push((ct, m.clone())),
            Err(HpkeError::MessageLimitReached) => break, // the sender ran into its limit near 2^64-1
            other => return Verdict::skip(format!("construction_failed(seal: {:?})", other.map(|c| c.len()))),
        }
    }
    if sealed.is_empty() {
        return Verdict::skip("empty pool");
    }
    let mr = sess.mode_r(&keys);
    let mut has_aad_flip = false;
    let mut has_cross = false;
    for i in 0..sealed.len() {
        // positive control
        let mut rcv = match fresh_receiver(d, sess, &keys, &enc, &sealed, i, start) {
            Ok(r) => r,
            Err(v) => return v,
        };
        {
            // positive control on a receiver of its own: a success at position 2^64-1 exhausts a
            // context, which must not leak into the variant attempts below
            let mut pc = match fresh_receiver(d, sess, &keys, &enc, &sealed, i, start) {
                Ok(r) => r,
                Err(v) => return v,
            };
            match pc.open(&sealed[i].0, &sealed[i].1.aad) {
                Ok(p) if p == sealed[i].1.pt.0 => {}
                other => return Verdict::skip(format!("construction_failed(positive control: {:?})", other.map(|p| p.len()))),
            }
        }
        let (vars, exhaustive) = variants(i, &sealed, case.variant_seed, nt);
        obs.label(if exhaustive { "flips:exhaustive" } else { "flips:sampled" });
        let pt = &sealed[i].1.pt.0;
        for (vi, var) in vars.iter().enumerate() {
            if var.ct == sealed[i].0 && var.aad == sealed[i].1.aad.0 {
                continue; // not a modification
            }
            has_aad_flip |= var.what.contains("aad flipped");
            has_cross |= var.what.contains("substituted") || var.what.contains("presented");
            // the bulk of the variants reuse one receiver repositioned through the hook; every 16th
            // variant gets a fresh receiver advanced by honest opens, so that nothing depends on a
            // rejected call leaving the context unchanged (that is C05's statement)
            let fresh = vi % 16 == 0;
            let mut own;
            let r: &mut dyn DynReceiver = if fresh {
                own = match fresh_receiver(d, sess, &keys, &enc, &sealed, i, start) {
                    Ok(r) => r,
                    Err(v) => return v,
                };
                own.as_mut()
            } else {
                rcv.set_seq(start.wrapping_add(i as u64));
                rcv.as_mut()
            };
            let describe = |api: &str, got: String| {
                format!(
                    "message {} of {} ({} pt bytes, {} aad bytes), {}: {} returned {} instead of Err(OpenError) ({} mode {})",
                    i, sealed.len(), pt.len(), sealed[i].1.aad.len(), var.what, api, got, suite.label(), sess.mode
                )
            };
            obs.inner_checks += 1;
            match r.open(&var.ct, &var.aad) {
                Err(HpkeError::OpenError) => {}
                Ok(p) => return Verdict::fail("C06/open/accepted-modified", describe("open", format!("Ok({})", hex_short(&p)))),
                Err(e) => return Verdict::fail("C06/open/error-kind", describe("open", format!("Err({:?})", e))),
            }
            if var.ct.len() >= nt {
                if !fresh {
                    r.set_seq(start.wrapping_add(i as u64));
                }
                let split = var.ct.len() - nt;
                let mut buf = var.ct[..split].to_vec();
                obs.inner_checks += 1;
                match r.open_in_place(&mut buf, &var.aad, &var.ct[split..]) {
                    Err(Fail::Hpke(HpkeError::OpenError)) => {
                        if pt.len() >= 16 && &buf == pt {
                            return Verdict::fail("C06/open-in-place/plaintext-released", describe("open_in_place_detached", "Err(OpenError) but left the plaintext in the buffer".into()));
                        }
                    }
                    Ok(()) => return Verdict::fail("C06/open-in-place/accepted-modified", describe("open_in_place_detached", format!("Ok, buffer {}", hex_short(&buf)))),
                    Err(e) => return Verdict::fail("C06/open-in-place/error-kind", describe("open_in_place_detached", format!("Err({:?})", e))),
                }
            }
            // single-shot interfaces see the first message of a session; sample them (each costs a decap)
            if i == 0 && start == 0 && (vi % 8 == 0 || var.what.contains("aad") || var.what.contains("tag")) {
                obs.inner_checks += 1;
                match d.single_shot_open(&mr, &keys.sk_r, &enc, &sess.info, &var.ct, &var.aad) {
                    Err(Fail::Hpke(HpkeError::OpenError)) => {}
                    Ok(p) => return Verdict::fail("C06/single-shot-open/accepted-modified", describe("single_shot_open", format!("Ok({})", hex_short(&p)))),
                    Err(e) => return Verdict::fail("C06/single-shot-open/error-kind", describe("single_shot_open", format!("Err({:?})", e))),
                }
                if var.ct.len() >= nt {
                    let split = var.ct.len() - nt;
                    let mut buf = var.ct[..split].to_vec();
                    obs.inner_checks += 1;
                    match d.single_shot_open_in_place(&mr, &keys.sk_r, &enc, &sess.info, &mut buf, &var.aad, &var.ct[split..]) {
                        Err(Fail::Hpke(HpkeError::OpenError)) => {}
                        Ok(()) => return Verdict::fail("C06/single-shot-open-in-place/accepted-modified", describe("single_shot_open_in_place_detached", "Ok".into())),
                        Err(e) => return Verdict::fail("C06/single-shot-open-in-place/error-kind", describe("single_shot_open_in_place_detached", format!("Err({:?})", e))),
                    }
                }
            }
        }
    }
    // detached interfaces take the tag as its own byte string: a tag with bytes appended or removed
    // must never lead to plaintext (it is rejected when the tag is deserialised, or by the AEAD)
    for i in 0..sealed.len() {
        let (ct, m) = &sealed[i];
        let split = ct.len() - nt;
        let tag = &ct[split..];
        let mut tags: Vec<(String, Vec<u8>)> = Vec::new();
        for n in 1..=17usize {
            let mut t = tag.to_vec();
            t.extend(std::iter::repeat(0u8).take(n));
            tags.push((format!("tag with {} zero bytes appended", n), t));
            let mut t = tag.to_vec();
            t.extend(tag.iter().cycle().take(n));
            tags.push((format!("tag with {} of its own bytes appended", n), t));
            let mut t = vec![0u8; n];
            t.extend_from_slice(tag);
            tags.push((format!("tag with {} zero bytes prepended", n), t));
        }
        for l in 0..nt {
            tags.push((format!("tag truncated to {} bytes", l), tag[..l].to_vec()));
        }
        let mut rcv = match fresh_receiver(d, sess, &keys, &enc, &sealed, i, start) {
            Ok(r) => r,
            Err(v) => return v,
        };
        for (what, t) in &tags {
            rcv.set_seq(start.wrapping_add(i as u64));
            let mut buf = ct[..split].to_vec();
            obs.inner_checks += 1;
            if let Ok(()) = rcv.open_in_place(&mut buf, &m.aad, t) {
                return Verdict::fail(
                    "C06/open-in-place/accepted-modified-tag-length",
                    format!("message {} ({} pt bytes): open_in_place_detached accepted a {} ({} bytes) and left {} ({} mode {})", i, m.pt.len(), what, t.len(), hex_short(&buf), suite.label(), sess.mode),
                );
            }
            if i == 0 && start == 0 {
                let mut buf = ct[..split].to_vec();
                obs.inner_checks += 1;
                if let Ok(()) = d.single_shot_open_in_place(&mr, &keys.sk_r, &enc, &sess.info, &mut buf, &m.aad, t) {
                    return Verdict::fail(
                        "C06/single-shot-open-in-place/accepted-modified-tag-length",
                        format!("single_shot_open_in_place_detached accepted a {} ({} bytes) ({} mode {})", what, t.len(), suite.label(), sess.mode),
                    );
                }
            }
        }
    }
    // many empty-plaintext messages: every proper prefix and every 1-byte extension of each tag
    if case.empty_messages > 0 {
        obs.label("many-empty-messages");
        let (enc2, mut snd2) = match honest_sender(d, sess, &keys) {
            Ok(x) => x,
            Err(v) => return v,
        };
        let mut rcv2 = match honest_receiver(d, sess, &keys, &enc2) {
            Ok(r) => r,
            Err(v) => return v,
        };
        for k in 0..case.empty_messages as u64 {
            let aad = k.to_le_bytes();
            let pos = k.wrapping_mul(0x9e3779b97f4a7c15) >> 1; // spread over positions, below the limit
            snd2.set_seq(pos);
            let Ok(ct) = snd2.seal(b"", &aad) else { return Verdict::skip("construction_failed(seal empty)") };
            for l in 0..ct.len() {
                rcv2.set_seq(pos);
                obs.inner_checks += 1;
                match rcv2.open(&ct[..l], &aad) {
                    Err(HpkeError::OpenError) => {}
                    other => {
                        return Verdict::fail(
                            "C06/open/accepted-truncated-empty-message",
                            format!("an empty-plaintext message (tag {}) truncated to {} bytes: open returned {:?} instead of Err(OpenError) ({} mode {})", hex_short(&ct), l, other.map(|p| p.len()), suite.label(), sess.mode),
                        )
                    }
                }
            }
            for extra in [0u8, 0xff] {
                let mut c = ct.clone();
                c.push(extra);
                rcv2.set_seq(pos);
                obs.inner_checks += 1;
                match rcv2.open(&c, &aad) {
                    Err(HpkeError::OpenError) => {}
                    other => return Verdict::fail("C06/open/accepted-extended-empty-message", format!("an empty-plaintext message with byte {:#04x} appended: open returned {:?} ({})", extra, other.map(|p| p.len()), suite.label())),
                }
            }
        }
    }
    obs.nontrivial = has_aad_flip && has_cross;
    Verdict::Pass
}

impl Property for P {
    type Case = Case;
    fn id(&self) -> &'static str {
        "C06"
    }
    fn rule(&self) -> String {
        "Long run: 200 000 (thorough 2^22) CONSECUTIVE modified / out-of-sequence deliveries of six kinds on one receiver per AEAD through the public API, every one of which must be rejected. Generated: (sealing suite, mode, session, 1..=3 messages, start position 0 / byte-carry boundary / 2^64-1-d through the hook, optionally 50..400 extra empty-plaintext messages whose every proper prefix and 1-byte extension is tried); swept additionally: the families at positions 2^64-1, 2^64-2, 2^64-3, 255, 2^32, 2^56-1 and 2500 empty messages per AEAD; per message a variant family: every single-bit flip of ct||tag and of aad (exhaustive for <=96 bytes, all tag bits + 256 sampled positions otherwise), every truncation length, extensions by 1..=17 bytes (zeros / pattern / tag copy / prepended), aad emptied/shortened/extended, tag, aad and whole ciphertext substituted from the other messages of the same context; for the detached interfaces also tags with 1..=17 bytes appended/prepended and tags truncated to 0..Nt-1 bytes. \
         Each variant is opened at the right position through open and open_in_place_detached (one receiver repositioned through the hook, every 16th variant on a fresh receiver advanced by honest opens) and, for the first message, through single_shot_open and single_shot_open_in_place_detached. \
         Oracle: every attempt returns Err(OpenError); an in-place failure must not leave the plaintext (>=16 bytes) in the buffer; positive control per message. \
         Non-trivial: a case whose families contain aad flips and a cross-message substitution; evaluations counts cases, inner_oracle_comparisons counts open attempts."
            .into()
    }
    fn assumptions(&self) -> Vec<String> {
        vec!["bit flips in messages longer than 96 bytes are sampled (tag bits always exhaustive)".into(), "a forgery succeeding with probability 2^-128 is ignored".into()]
    }
    fn strategy(&self, _tier: Tier) -> BoxedStrategy<Case> {
        let msg = (prop_oneof![10 => gen::bytes(64), 1 => gen::bytes(600)], prop_oneof![14 => gen::bytes(40), 1 => gen::bytes(1100)]).prop_map(|(pt, aad)| Msg { pt, aad });
        let start = prop_oneof![7 => Just(0u64), 2 => gen::position(), 1 => (0u64..4).prop_map(|d| u64::MAX - d)];
        (gen::session_with(gen::suite_sealing_cheap()), proptest::collection::vec(msg, 1..=3), any::<u64>(), start, prop_oneof![6 => Just(0u16), 1 => 50u16..400])
            .prop_map(|(mut sess, mut msgs, variant_seed, start, empty_messages)| {
                // relation between the two authenticated strings: the session's info equals the first
                // message's aad (one case in eight; both empty included). An interface that authenticates
                // the wrong one of the two is invisible otherwise.
                match variant_seed % 16 {
                    0 => sess.info = msgs[0].aad.clone(),
                    1 => {
                        sess.info = Bytes::default();
                        msgs[0].aad = Bytes::default();
                    }
                    _ => {}
                }
                Case { sess, msgs, variant_seed, start, empty_messages }
            })
            .boxed()
    }
    fn cases(&self, tier: Tier) -> u32 {
        tier.pick(500, 6000)
    }
    fn sweeps(&self, _tier: Tier) -> Vec<(String, Vec<Case>)> {
        // every sealing AEAD x KEM x one KDF x 4 modes with a short 3-message script
        let mut cells = Vec::new();
        for (s, m) in gen::all_cells(&Suite::sealing36()) {
            if s.kdf != s.kem.kdf() {
                continue;
            }
            cells.push(Case {
                sess: gen::cell_session(s, m, 6),
                msgs: vec![
                    Msg { pt: Bytes(gen::fill(5, 5, 1)), aad: Bytes(gen::fill(3, 5, 2)) },
                    Msg { pt: Bytes(vec![]), aad: Bytes(vec![]) },
                    Msg { pt: Bytes(gen::fill(20, 5, 3)), aad: Bytes(gen::fill(1, 5, 4)) },
                ],
                variant_seed: 6,
                start: 0,
                empty_messages: 0,
            });
            // the same cell with info equal to the first message's aad, and with both empty
            if m % 2 == 0 {
                let mut e = gen::cell_session(s, m, 6);
                e.info = Bytes(gen::fill(3, 5, 2));
                cells.push(Case { sess: e, msgs: vec![Msg { pt: Bytes(gen::fill(5, 5, 1)), aad: Bytes(gen::fill(3, 5, 2)) }], variant_seed: 6, start: 0, empty_messages: 0 });
                let mut e = gen::cell_session(s, m, 6);
                e.info = Bytes::default();
                cells.push(Case { sess: e, msgs: vec![Msg { pt: Bytes(gen::fill(7, 5, 1)), aad: Bytes::default() }], variant_seed: 6, start: 0, empty_messages: 0 });
            }
        }
        // the same families at the last sequence positions, and many empty messages, per AEAD
        let mut edge = Vec::new();
        for (k, aead) in crate::refmodel::hpke_ref::AeadId::SEALING.into_iter().enumerate() {
            let s = Suite { kem: crate::refmodel::hpke_ref::KemId::X25519, kdf: crate::refmodel::hpke_ref::KdfId::Sha256, aead };
            for start in [u64::MAX, u64::MAX - 1, u64::MAX - 2, 255, 1 << 32, (1 << 56) - 1] {
                edge.push(Case {
                    sess: gen::cell_session(s, k as u8, 66),
                    msgs: vec![Msg { pt: Bytes(gen::fill(9, 5, 1)), aad: Bytes(gen::fill(2, 5, 2)) }, Msg { pt: Bytes(vec![]), aad: Bytes(vec![7]) }, Msg { pt: Bytes(gen::fill(18, 5, 3)), aad: Bytes(vec![]) }],
                    variant_seed: 66,
                    start,
                    empty_messages: 0,
                });
            }
            edge.push(Case { sess: gen::cell_session(s, 0, 67), msgs: vec![Msg { pt: Bytes(vec![]), aad: Bytes(vec![]) }], variant_seed: 67, start: 0, empty_messages: 2500 });
        }
        vec![("kem_x_aead_x_mode_cells".into(), cells), ("last_positions_and_many_empty_messages".into(), edge)]
    }
    fn extra(&self, tier: Tier, _seed: u64, x: &mut Extra) {
        // many consecutive rejected deliveries on ONE receiver (public API only): a per-context count
        // of failures is state no case-sized history reaches
        let n: u64 = tier.pick(200_000, 1 << 22);
        let results: Vec<(AeadId, LongRun)> = std::thread::scope(|sc| {
            let hs: Vec<_> = AeadId::SEALING.into_iter().map(|a| (a, sc.spawn(move || long_rejection_run(a, n)))).collect();
            hs.into_iter().map(|(a, h)| (a, h.join().unwrap_or_else(|_| LongRun::Infra("long run thread died".into())))).collect()
        });
        let mut runs = serde_json::Map::new();
        for (a, r) in results {
            let fail = match r {
                LongRun::Fine(k) => {
                    x.evaluations += k;
                    runs.insert(a.name().to_string(), serde_json::json!({"consecutive_rejected_deliveries_on_one_receiver": k, "hooks_used": false}));
                    None
                }
                LongRun::Infra(m) => {
                    x.infra_error = Some(m);
                    None
                }
                LongRun::Accepted(m) => Some(("C06/long-run/accepted-modified", m)),
                // other outcomes belong to C05 (position / error kind) and C13 (panic)
                LongRun::ChangedError(_) | LongRun::NextRejected(_) | LongRun::Panicked(_) => None,
            };
            if let Some((sig, msg)) = fail {
                if x.failure.is_none() {
                    x.failure = Some((sig.to_string(), msg, serde_json::json!({"long_rejection_run": a.name(), "n": n})));
                }
            }
        }
        x.notes.insert("long_rejection_runs".into(), serde_json::Value::Object(runs));
    }
    fn replay_extra(&self, payload: &serde_json::Value, x: &mut Extra) {
        if payload.get("long_rejection_run").is_none() {
            return;
        }
        let n = payload["n"].as_u64().unwrap_or(200_000);
        let a = AeadId::SEALING.into_iter().find(|a| Some(a.name()) == payload["long_rejection_run"].as_str()).unwrap_or(AeadId::ChaCha);
        let fail = match long_rejection_run(a, n) {
            LongRun::Fine(_) | LongRun::Infra(_) => None,
            LongRun::Accepted(m) => Some(("C06/long-run/accepted-modified", m)),
                // other outcomes belong to C05 (position / error kind) and C13 (panic)
                LongRun::ChangedError(_) | LongRun::NextRejected(_) | LongRun::Panicked(_) => None,
        };
        if let Some((sig, msg)) = fail {
            x.failure = Some((sig.to_string(), msg, payload.clone()));
        }
    }
    fn check(&self, case: &Case, obs: &mut Obs) -> Verdict {
        check(case, obs)
    }
    fn shrink_iters(&self) -> u32 {
        256
    }
}
