//! C15 - PSK inputs appear together or not at all; the bundle's fields are what enters the key
//! schedule; non-PSK modes use the empty defaults.

use super::c02::{export_req, ExportReq};
use super::common::*;
use crate::engine::{Obs, Property, Tier, Verdict};
use crate::ensure;
use crate::gen::{self, Msg, Session};
use crate::refmodel::hpke_ref::{self as r, Suite};
use crate::suite::{self, Fail, ScriptRng};
use crate::util::{hex_short, Bytes};
use hpke::HpkeError;
use proptest::prelude::*;
use serde::{Deserialize, Serialize};

#[derive(Clone, Debug, Serialize, Deserialize)]
pub enum Case {
    /// PskBundle::new(psk, psk_id)
    Ctor { psk: Bytes, psk_id: Bytes },
    /// a session whose (psk, psk_id) may be any constructible bundle, including the empty one in
    /// a PSK mode; compared with the reference key schedule fed with the bundle's fields
    Session { sess: Session, msgs: Vec<Msg>, exports: Vec<ExportReq> },
    /// two sessions that share the PSK bundle, run one after the other on the same thread: the
    /// bundle's fields must enter the key schedule of the second one afresh, whatever came before
    /// (same psk_id under another suite or mode)
    Pair { first: Session, second: Session, msgs: Vec<Msg> },
}

pub struct P;

fn check_ctor(psk: &[u8], psk_id: &[u8], obs: &mut Obs) -> Verdict {
    let want_ok = psk.is_empty() == psk_id.is_empty();
    let got = suite::psk_bundle_new(psk, psk_id);
    obs.label(format!("ctor:psk_empty={}:id_empty={}", psk.is_empty(), psk_id.is_empty()));
    obs.nontrivial = !want_ok || (!psk.is_empty() && psk != psk_id);
    obs.inner_checks += 1;
    match (want_ok, got) {
        (true, Ok(())) => Verdict::Pass,
        (false, Err(HpkeError::InvalidPskBundle)) => Verdict::Pass,
        (true, Err(e)) => Verdict::fail("C15/ctor/rejected-consistent-bundle", format!("PskBundle::new(psk len {}, psk_id len {}) failed with {:?}", psk.len(), psk_id.len(), e)),
        (false, Ok(())) => Verdict::fail("C15/ctor/accepted-lone-field", format!("PskBundle::new accepted a lone field (psk len {}, psk_id len {})", psk.len(), psk_id.len())),
        (false, Err(e)) => Verdict::fail("C15/ctor/error-kind", format!("a lone field was rejected with {:?}, expected InvalidPskBundle", e)),
    }
}

fn check_session(sess: &Session, msgs: &[Msg], exports: &[ExportReq], obs: &mut Obs) -> Verdict {
    let suite_ = sess.suite;
    let d = dsuite(sess);
    let keys = sess.keys();
    labels_for(sess, obs);
    let psk_mode = sess.mode & 1 != 0;
    if psk_mode && sess.psk.is_empty() != sess.psk_id.is_empty() {
        return Verdict::skip("not a constructible bundle");
    }
    if psk_mode && sess.psk.is_empty() {
        obs.label("empty-bundle-in-psk-mode");
    }
    obs.nontrivial = psk_mode && sess.psk != sess.psk_id;
    // reference: the bundle's psk is the IKM of `secret`, its id is hashed into the context; in
    // non-PSK modes both are the empty string whatever the session carries
    let ikm_e = sess.ikm_e();
    let Some((enc_ref, ks)) = r::setup_s(&sess.sender_in(&keys, &ikm_e)) else { return Verdict::skip("reference SetupS rejects the inputs") };
    let mut rng = ScriptRng::new(&sess.stream);
    let (enc, mut snd) = match d.setup_sender(&sess.mode_s(&keys), &keys.pk_r, &sess.info, &mut rng) {
        Ok(x) => x,
        Err(f @ Fail::Construct("psk_bundle", _)) => return Verdict::fail("C15/ctor/rejected-consistent-bundle", format!("a consistent bundle could not be built: {:?}", f)),
        Err(f) => return construct_skip("setup_sender", &f),
    };
    if enc != enc_ref {
        return Verdict::skip("encapsulated key differs from the reference (C02/C03 own this)");
    }
    let mut rcv = match honest_receiver(d, sess, &keys, &enc) {
        Ok(x) => x,
        Err(v) => return v,
    };
    if suite_.aead.sealing() {
        for (i, m) in msgs.iter().enumerate() {
            let Ok(ct) = snd.seal(&m.pt, &m.aad) else { return Verdict::skip("construction_failed(seal)") };
            let want = ks.seal(i as u64, &m.aad, &m.pt);
            obs.inner_checks += 2;
            ensure!(
                ct == want,
                "C15/key-schedule/ciphertext",
                "mode {} psk {} psk_id {}: ciphertext #{} is not the one of the RFC key schedule fed with (psk -> secret IKM, psk_id -> psk_id_hash): hpke {} reference {} ({})",
                sess.mode, hex_short(&sess.psk), hex_short(&sess.psk_id), i, hex_short(&ct), hex_short(&want), suite_.label()
            );
            let got = rcv.open(&want, &m.aad);
            ensure!(got.as_ref() == Ok(&m.pt.0), "C15/key-schedule/receiver-open", "mode {}: the receiver does not open the reference ciphertext #{}: {:?}", sess.mode, i, got.map(|v| v.len()));
        }
    }
    let fixed = [ExportReq { ctx: Bytes(b"c15".to_vec()), len: 32 }];
    for x in exports.iter().chain(fixed.iter()) {
        let want = ks.export(&x.ctx, x.len);
        obs.inner_checks += 2;
        let a = snd.export(&x.ctx, x.len);
        ensure!(a.as_ref().ok() == want.as_ref(), "C15/key-schedule/export", "mode {} psk {} psk_id {}: sender export differs from the reference key schedule ({})", sess.mode, hex_short(&sess.psk), hex_short(&sess.psk_id), suite_.label());
        let b = rcv.export(&x.ctx, x.len);
        ensure!(b.as_ref().ok() == want.as_ref(), "C15/key-schedule/export", "mode {}: receiver export differs from the reference key schedule ({})", sess.mode, suite_.label());
    }
    Verdict::Pass
}

impl Property for P {
    type Case = Case;
    fn id(&self) -> &'static str {
        "C15"
    }
    fn rule(&self) -> String {
        "Generated: (psk, psk_id) pairs over edge-biased lengths for the constructor; sessions in all 4 modes x 48 suites with any constructible bundle (including the empty bundle in a PSK mode and bundles where one field is a prefix/suffix of the other). \
         Swept: the 65x65 grid of (len psk, len psk_id) for the constructor; every byte value as a constant string of length 1..=3 in either field and a list of blank/whitespace/NUL strings (the rule must depend on emptiness only); 48x4 cells with psk != psk_id; pairs of sessions that share the bundle and run back to back on one thread with one suite component or the mode changed. \
         Oracle: constructor Ok iff both empty or both non-empty else InvalidPskBundle; ciphertexts/exports equal the reference key schedule fed with the bundle's fields (non-PSK modes: empty defaults). \
         Non-trivial: lone-key/lone-id constructor calls, consistent bundles with psk != psk_id, PSK-mode sessions with psk != psk_id."
            .into()
    }
    fn assumptions(&self) -> Vec<String> {
        vec!["reference key schedule pinned by anchors (A.1.2 fixes the psk / psk_id roles) and golden vectors at start-up".into()]
    }
    fn prelude(&self, _tier: Tier) -> Result<Vec<String>, String> {
        let rep = crate::refmodel::selfcheck::oracle_selfcheck(2)?;
        Ok(vec![format!("oracle self-check: {} anchors, {} golden vectors", rep.anchors, rep.golden)])
    }
    fn strategy(&self, _tier: Tier) -> BoxedStrategy<Case> {
        let ctor = (gen::bytes(300), gen::bytes(300)).prop_map(|(psk, psk_id)| Case::Ctor { psk, psk_id });
        let bundle = prop_oneof![
            6 => (gen::bytes_range(1, 80), gen::bytes_range(1, 80)),
            1 => Just((Bytes::default(), Bytes::default())),
            // related fields: same bytes, prefix, swapped roles stay distinguishable
            1 => gen::bytes_range(2, 40).prop_map(|b| (b.clone(), Bytes(b.0[..b.0.len() / 2].to_vec()))),
            1 => gen::bytes_range(2, 40).prop_map(|b| (Bytes(b.0[..b.0.len() / 2].to_vec()), b.clone())),
        ];
        let session = (gen::suite_any(), gen::mode(), gen::ikm(), gen::ikm(), bundle, gen::bytes(100), gen::stream())
            .prop_flat_map(|(suite, mode, ikm_r, ikm_s, (psk, psk_id), info, stream)| {
                let nh = suite.kdf.nh();
                let sess = Session { suite, mode, ikm_r, ikm_s, psk, psk_id, info, stream };
                (Just(sess), proptest::collection::vec(gen::msg(100), 0..=3), proptest::collection::vec(export_req(nh), 0..=2))
            })
            .prop_map(|(sess, msgs, exports)| Case::Session { sess, msgs, exports });
        let pair = (gen::session_any(), gen::suite_any(), gen::mode(), gen::stream(), any::<u8>(), proptest::collection::vec(gen::msg(60), 0..=2)).prop_map(|(first, suite2, mode2, stream2, keep, msgs)| {
            let mut first = first;
            first.mode |= 1;
            let mut second = first.clone();
            // the second session differs in suite components / mode / randomness but keeps the bundle
            if keep & 1 != 0 {
                second.suite.aead = suite2.aead;
            }
            if keep & 2 != 0 {
                second.suite.kem = suite2.kem;
            }
            if keep & 4 != 0 {
                second.suite.kdf = suite2.kdf;
            }
            if keep & 8 != 0 {
                second.mode = mode2 | 1;
            }
            second.stream = stream2;
            Case::Pair { first, second, msgs }
        });
        prop_oneof![2 => ctor, 3 => session, 1 => pair].boxed()
    }
    fn cases(&self, tier: Tier) -> u32 {
        tier.pick(10000, 100000)
    }
    fn sweeps(&self, _tier: Tier) -> Vec<(String, Vec<Case>)> {
        let mut grid = Vec::new();
        for a in 0..=64usize {
            for b in 0..=64usize {
                grid.push(Case::Ctor { psk: Bytes(gen::fill(a, 5, 15)), psk_id: Bytes(gen::fill(b, 5, 16)) });
            }
        }
        // the rule depends on emptiness only, never on content: every byte value as a constant string
        // of length 1..=3, in either field, next to an empty / non-empty / equal partner
        let mut content = Vec::new();
        for b in 0..=255u8 {
            for len in 1..=3usize {
                let v = Bytes(vec![b; len]);
                content.push(Case::Ctor { psk: Bytes(b"k".to_vec()), psk_id: v.clone() });
                content.push(Case::Ctor { psk: Bytes::default(), psk_id: v.clone() });
                content.push(Case::Ctor { psk: v.clone(), psk_id: Bytes(b"i".to_vec()) });
                content.push(Case::Ctor { psk: v.clone(), psk_id: Bytes::default() });
                content.push(Case::Ctor { psk: v.clone(), psk_id: v.clone() });
            }
        }
        for text in [&b" "[..], b"\t", b"\n", b"\r\n", b"  \t ", b"\0", b"\0\0\0\0", b"null", b"none", b"\xff\xff", b"0", b"-"] {
            content.push(Case::Ctor { psk: Bytes(b"key".to_vec()), psk_id: Bytes(text.to_vec()) });
            content.push(Case::Ctor { psk: Bytes::default(), psk_id: Bytes(text.to_vec()) });
            content.push(Case::Ctor { psk: Bytes(text.to_vec()), psk_id: Bytes(b"id".to_vec()) });
            content.push(Case::Ctor { psk: Bytes(text.to_vec()), psk_id: Bytes::default() });
        }
        let mut cells = Vec::new();
        for (s, m) in gen::all_cells(&Suite::all48()) {
            cells.push(Case::Session { sess: gen::cell_session(s, m, 15), msgs: gen::fixed_msgs(15), exports: vec![] });
            if m & 1 != 0 {
                let mut e = gen::cell_session(s, m, 16);
                e.psk = Bytes::default();
                e.psk_id = Bytes::default();
                cells.push(Case::Session { sess: e, msgs: gen::fixed_msgs(16), exports: vec![] });
            }
        }
        // same bundle, same KDF, one other suite component changed, back to back on one thread
        let mut pairs = Vec::new();
        for kem in r::KemId::ALL {
            for kdf in r::KdfId::ALL {
                for mode in [1u8, 3u8] {
                    let a = gen::cell_session(Suite { kem, kdf, aead: r::AeadId::ChaCha }, mode, 150);
                    for aead2 in [r::AeadId::Aes128, r::AeadId::Export] {
                        let mut b = a.clone();
                        b.suite.aead = aead2;
                        b.stream = Bytes(gen::fill(160, 5, 151));
                        pairs.push(Case::Pair { first: a.clone(), second: b, msgs: gen::fixed_msgs(150) });
                    }
                    let mut b = a.clone();
                    b.suite.kem = if kem == r::KemId::X25519 { r::KemId::P256 } else { r::KemId::X25519 };
                    pairs.push(Case::Pair { first: a.clone(), second: b, msgs: gen::fixed_msgs(150) });
                    let mut b = a.clone();
                    b.mode = mode ^ 2;
                    pairs.push(Case::Pair { first: a, second: b, msgs: gen::fixed_msgs(150) });
                }
            }
        }
        vec![("ctor_length_grid_65x65".into(), grid), ("ctor_every_byte_value_and_blank_strings".into(), content), ("suite_x_mode_cells".into(), cells), ("same_bundle_back_to_back_pairs".into(), pairs)]
    }
    fn check(&self, case: &Case, obs: &mut Obs) -> Verdict {
        match case {
            Case::Ctor { psk, psk_id } => check_ctor(psk, psk_id, obs),
            Case::Session { sess, msgs, exports } => check_session(sess, msgs, exports, obs),
            Case::Pair { first, second, msgs } => {
                obs.label("pair:shared-bundle");
                let v = check_session(first, msgs, &[], obs);
                if v != Verdict::Pass {
                    return v;
                }
                let v = check_session(second, msgs, &[], obs);
                obs.nontrivial = true;
                v
            }
        }
    }
}
