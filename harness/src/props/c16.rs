//! C16 - secrets held by the library are wiped when dropped. Observed in the memory image of the
//! slot a value is dropped in (secrets located by value, never by offset) and through the drop
//! ledger hook for the stack-temporary AEAD key.

use super::common::*;
use crate::engine::{Extra, Obs, Property, Tier, Verdict};
use serde_json::json;
use crate::gen::{self, Session};
use crate::refmodel::hpke_ref::{self as r, Suite};
use crate::suite::{self, DropImage, Fail, ProbePlan, ScriptRng, LEDGER_NAMES};
use crate::util::hex_short;
use proptest::prelude::*;
use serde::{Deserialize, Serialize};

#[derive(Clone, Copy, Debug, PartialEq, Eq, Serialize, Deserialize)]
pub enum Role {
    Sender,
    Receiver,
    SharedSecretEncap,
    SharedSecretDecap,
    /// the four single-shot functions build, use and drop a context internally: ledger only.
    /// `ops` selects the form: 0 allocating, 1 in-place detached, 2 (open only) a forged ciphertext
    SingleShotSeal,
    SingleShotOpen,
}

#[derive(Clone, Debug, Serialize, Deserialize)]
pub struct Case {
    pub sess: Session,
    pub role: Role,
    /// operations performed on the context before it is dropped (0, 1 or 2)
    #[serde(default)]
    pub ops: u8,
    /// the drop happens while the thread is unwinding from a caught panic
    #[serde(default)]
    pub unwinding: bool,
}

pub struct P;

fn find_all(hay: &[u8], needle: &[u8]) -> Vec<usize> {
    if needle.is_empty() || hay.len() < needle.len() {
        return vec![];
    }
    (0..=hay.len() - needle.len()).filter(|&i| &hay[i..i + needle.len()] == needle).collect()
}

fn check(case: &Case, obs: &mut Obs) -> Verdict {
    let sess = &case.sess;
    let d = dsuite(sess);
    labels_for(sess, obs);
    obs.label(format!("role:{:?}", case.role));
    let keys = sess.keys();
    let auth = sess.mode & 2 != 0;
    if matches!(case.role, Role::SingleShotSeal | Role::SingleShotOpen) {
        return single_shot(case, obs);
    }
    // an honest encapsulated key for the receiver-side roles, produced before the ledger snapshot
    let enc = match case.role {
        Role::Receiver | Role::SharedSecretDecap => match honest_sender(d, sess, &keys) {
            Ok((e, _)) => e,
            Err(v) => return v,
        },
        _ => vec![],
    };
    // reference values for cross-checking what the accessors report
    let ikm_e = sess.ikm_e();
    let ks = r::setup_s(&sess.sender_in(&keys, &ikm_e)).map(|(_, ks)| ks);

    let before_ledger = suite::ledger();
    let mut rng = ScriptRng::new(&sess.stream);
    let pair = if auth { Some((&keys.sk_s[..], &keys.pk_s[..])) } else { None };
    let plan = ProbePlan { ops: case.ops.min(3), unwinding: case.unwinding };
    obs.label(format!("ops-before-drop:{}", plan.ops));
    if plan.unwinding {
        obs.label("drop-during-unwinding");
    }
    let img: Result<DropImage, Fail> = match case.role {
        Role::Sender => d.probe_drop_sender(&sess.mode_s(&keys), &keys.pk_r, &sess.info, &mut rng, plan),
        Role::Receiver => d.probe_drop_receiver(&sess.mode_r(&keys), &keys.sk_r, &enc, &sess.info, plan),
        Role::SharedSecretEncap => d.probe_drop_shared_secret(&keys.pk_r, pair, &mut rng, plan),
        Role::SharedSecretDecap => d.probe_drop_shared_secret_decap(&keys.sk_r, if auth { Some(&keys.pk_s[..]) } else { None }, &enc, plan),
        Role::SingleShotSeal | Role::SingleShotOpen => unreachable!(),
    };
    let after_ledger = suite::ledger();
    let img = match img {
        Ok(i) => i,
        Err(f) => return construct_skip("probe", &f),
    };
    // ---- memory image ---------------------------------------------------------------------------
    let mut located_all = true;
    for (name, secret, off) in &img.secrets {
        if secret.is_empty() {
            continue;
        }
        if secret.iter().all(|&b| b == 0) {
            return Verdict::skip("secret value is all-zero: wiping is not observable");
        }
        obs.inner_checks += 1;
        // the live field: where the accessor's slice points inside the slot; it must hold the value
        let end = off.wrapping_add(secret.len());
        if *off >= img.before.len() || end > img.before.len() || &img.before[*off..end] != &secret[..] {
            located_all = false;
            obs.label(format!("not-located:{}", name));
            continue;
        }
        // cross-check against the reference model where it has the value
        if let Some(ks) = &ks {
            let refv = match *name {
                "exporter_secret" => Some(&ks.exporter_secret),
                "base_nonce" if sess.suite.aead.sealing() => Some(&ks.base_nonce),
                _ => None,
            };
            if let Some(rv) = refv {
                if rv != secret {
                    obs.label("secret-differs-from-reference");
                }
            }
        }
        let region = &img.after[*off..end];
        let nonzero = region.iter().filter(|&&b| b != 0).count();
        if nonzero != 0 {
            let sig = if region == &secret[..] { "still-in-memory" } else { "not-zeroed" };
            return Verdict::fail(
                format!("C16/{}/{}", name, sig),
                format!(
                    "{:?} of {} mode {}: after drop {} of the {} bytes that held the {} (offset {} of the {}-byte value) are non-zero: {} (the secret was {})",
                    case.role, sess.suite.label(), sess.mode, nonzero, secret.len(), name, off, img.after.len(), hex_short(region), hex_short(secret)
                ),
            );
        }
        // copies elsewhere in the slot (uninitialised union/padding bytes that carried stale stack
        // contents into the value when it was moved) are outside the statement: observation only
        let stale = find_all(&img.after, secret);
        // a copy that was NOT in the slot when the value was fresh but is there after the drop was
        // written by the library during an operation (operations on `&mut self` never copy the whole
        // value, so nothing stale can arrive that way): that memory held the secret and was not wiped
        let fresh_offsets = find_all(&img.fresh, secret);
        if let Some(o) = stale.iter().find(|o| !fresh_offsets.contains(o)) {
            return Verdict::fail(
                format!("C16/{}/copy-left-by-operation", name),
                format!(
                    "{:?} of {} mode {}: after {} operation(s) and the drop, a copy of the {} ({}) remains at offset {} of the {}-byte value; it was not there when the context was fresh, so the library wrote it and did not wipe it",
                    case.role, sess.suite.label(), sess.mode, plan.ops, name, hex_short(secret), o, img.after.len()
                ),
            );
        }
        if !stale.is_empty() {
            obs.label(format!("observation:stale-copy-of-{}-outside-live-field:{}:{:?}", name, sess.suite.aead.name(), sess.suite.kdf));
        }
        // the secret under a constant XOR mask (what an HMAC object keyed with it stores: key ^ 0x36,
        // key ^ 0x5c) is the secret for every practical purpose. Nothing in the key schedule ever uses
        // these secrets as an HMAC key while the context is built, so such bytes cannot be stale stack
        // content: if they are in the slot after the drop, the context kept a keyed object.
        if secret.len() >= 12 {
            for c in 1..=255u8 {
                let masked: Vec<u8> = secret.iter().map(|b| b ^ c).collect();
                if let Some(o) = find_all(&img.after, &masked).first() {
                    return Verdict::fail(
                        format!("C16/{}/masked-copy-survives", name),
                        format!(
                            "{:?} of {} mode {}: after the drop the {} XOR {:#04x} is present at offset {} of the {}-byte value (an object keyed with the secret is kept in the context and not wiped)",
                            case.role, sess.suite.label(), sess.mode, name, c, o, img.after.len()
                        ),
                    );
                }
            }
        }
    }
    if !located_all {
        return Verdict::skip("secret not located in the memory image before the drop: not observable");
    }
    obs.nontrivial = true;
    // ---- ledger -----------------------------------------------------------------------------------
    for k in 0..4 {
        let dirty = after_ledger[k].1 - before_ledger[k].1;
        obs.inner_checks += 1;
        if dirty != 0 {
            return Verdict::fail(
                format!("C16/ledger/{}/dirty-drop", LEDGER_NAMES[k]),
                format!("{:?} of {} mode {}: {} {} buffer(s) were dropped while still holding non-zero bytes", case.role, sess.suite.label(), sess.mode, dirty, LEDGER_NAMES[k]),
            );
        }
    }
    let drops = |k: usize| after_ledger[k].0 - before_ledger[k].0;
    match case.role {
        Role::Sender | Role::Receiver => {
            // the key schedule's temporary AEAD key buffer must go through the wiping Drop before setup returns
            if drops(0) < 1 {
                return Verdict::fail("C16/ledger/AeadKey/no-wiping-drop", format!("{:?} of {} mode {}: setup produced no wiped AEAD key buffer drop (the temporary key buffer is not wiped)", case.role, sess.suite.label(), sess.mode));
            }
            if drops(1) < 1 || drops(2) < 1 || drops(3) < 1 {
                return Verdict::fail(
                    "C16/ledger/missing-wiping-drop",
                    format!("{:?} of {} mode {}: wiping drops recorded: nonce {}, exporter secret {}, shared secret {} (each must be >= 1 for one context lifetime)", case.role, sess.suite.label(), sess.mode, drops(1), drops(2), drops(3)),
                );
            }
        }
        Role::SingleShotSeal | Role::SingleShotOpen => {}
        Role::SharedSecretEncap | Role::SharedSecretDecap => {
            if drops(3) < 1 {
                return Verdict::fail("C16/ledger/SharedSecret/no-wiping-drop", format!("{:?} of {}: dropping a shared secret recorded no wiping drop", case.role, sess.suite.label()));
            }
        }
    }
    Verdict::Pass
}

/// Single-shot sealing / opening derives a key schedule, uses it once and drops everything before it
/// returns: over the call the ledger must show at least one wiping drop of the temporary AEAD key
/// buffer, of a nonce and of the KEM shared secret, and no drop that left non-zero bytes. (The
/// exporter secret is not demanded here: a single-shot call can never export.)
fn single_shot(case: &Case, obs: &mut Obs) -> Verdict {
    let sess = &case.sess;
    if !sess.suite.aead.sealing() {
        return Verdict::skip("single-shot needs a sealing AEAD");
    }
    let d = dsuite(sess);
    let keys = sess.keys();
    let form = case.ops % 3;
    obs.label(format!("single-shot-form:{}", form));
    let pt = b"single-shot plaintext, a little longer than one block of the cipher".to_vec();
    let aad = b"aad".to_vec();
    // material for the open side is produced before the ledger snapshot
    let (enc, mut ct) = match case.role {
        Role::SingleShotOpen => {
            let mut rng = ScriptRng::new(&sess.stream);
            match d.single_shot_seal(&sess.mode_s(&keys), &keys.pk_r, &sess.info, &pt, &aad, &mut rng) {
                Ok(x) => x,
                Err(f) => return construct_skip("single_shot_seal", &f),
            }
        }
        _ => (vec![], vec![]),
    };
    if form == 2 && !ct.is_empty() {
        ct[0] ^= 1;
    }
    let before = suite::ledger();
    let res: Result<(), Fail> = match (case.role, form) {
        (Role::SingleShotSeal, 1) => {
            let mut rng = ScriptRng::new(&sess.stream);
            let mut buf = pt.clone();
            d.single_shot_seal_in_place(&sess.mode_s(&keys), &keys.pk_r, &sess.info, &mut buf, &aad, &mut rng).map(|_| ())
        }
        (Role::SingleShotSeal, _) => {
            let mut rng = ScriptRng::new(&sess.stream);
            d.single_shot_seal(&sess.mode_s(&keys), &keys.pk_r, &sess.info, &pt, &aad, &mut rng).map(|_| ())
        }
        (_, 1) if ct.len() >= 16 => {
            let (body, tag) = ct.split_at(ct.len() - 16);
            let mut buf = body.to_vec();
            d.single_shot_open_in_place(&sess.mode_r(&keys), &keys.sk_r, &enc, &sess.info, &mut buf, &aad, tag).map(|_| ())
        }
        _ => d.single_shot_open(&sess.mode_r(&keys), &keys.sk_r, &enc, &sess.info, &ct, &aad).map(|_| ()),
    };
    let after = suite::ledger();
    match (&res, form) {
        (Ok(()), 2) if case.role == Role::SingleShotOpen => return Verdict::skip("forged ciphertext accepted (C06's question)"),
        (Err(Fail::Hpke(hpke::HpkeError::OpenError)), 2) if case.role == Role::SingleShotOpen => {}
        (Ok(()), _) => {}
        (Err(f), _) => return construct_skip("single-shot call", f),
    }
    obs.nontrivial = true;
    for k in 0..4 {
        let dirty = after[k].1 - before[k].1;
        obs.inner_checks += 1;
        if dirty != 0 {
            return Verdict::fail(
                format!("C16/ledger/{}/dirty-drop", LEDGER_NAMES[k]),
                format!("{:?} (form {}) of {} mode {}: {} {} buffer(s) were dropped while still holding non-zero bytes", case.role, form, sess.suite.label(), sess.mode, dirty, LEDGER_NAMES[k]),
            );
        }
    }
    let drops = |k: usize| after[k].0 - before[k].0;
    if drops(0) < 1 {
        return Verdict::fail(
            "C16/ledger/AeadKey/no-wiping-drop",
            format!("{:?} (form {}) of {} mode {}: the call derived a key schedule but no AEAD key buffer went through the wiping Drop before it returned", case.role, form, sess.suite.label(), sess.mode),
        );
    }
    if drops(1) < 1 || drops(3) < 1 {
        return Verdict::fail(
            "C16/ledger/missing-wiping-drop",
            format!("{:?} (form {}) of {} mode {}: wiping drops recorded: nonce {}, shared secret {} (each must be >= 1)", case.role, form, sess.suite.label(), sess.mode, drops(1), drops(3)),
        );
    }
    Verdict::Pass
}

/// Builds and runs probes/c16 in release mode WITHOUT the hook cfg: wipes written as plain stores
/// can be deleted by the optimiser when the memory is freed right afterwards, and the hooked build
/// cannot see that (the ledger call reads the buffer and keeps the stores alive).
fn release_probe(x: &mut Extra) {
    let tree = std::env::var("HPKE_TREE").unwrap_or_else(|_| "/repo".into());
    let tbase = std::env::var("VERIF_TARGET_BASE").unwrap_or_else(|_| crate::engine::root().join("target").to_string_lossy().into_owned());
    let dir = crate::engine::root().join("probes").join("c16");
    let mut cmd = std::process::Command::new("cargo");
    cmd.current_dir(&dir).env("CARGO_NET_OFFLINE", "true").env_remove("RUSTFLAGS").args(["run", "--release", "--offline", "--quiet", "--target-dir", &format!("{}/c16probe", tbase)]);
    if tree != "/repo" {
        cmd.args(["--config", &format!("paths=[\"{}\"]", tree)]);
    }
    let out = match cmd.output() {
        Ok(o) => o,
        Err(e) => {
            x.notes.insert("release_probe".into(), json!({"status": format!("not run: {}", e)}));
            return;
        }
    };
    let stdout = String::from_utf8_lossy(&out.stdout);
    if !out.status.success() || !stdout.lines().any(|l| l.trim() == "DONE") {
        // the probe uses doc-hidden helpers of the crate (labeled_extract, Kem::decap); a tree that
        // changed those is not judged by this observer
        let err: String = String::from_utf8_lossy(&out.stderr).lines().filter(|l| l.starts_with("error")).take(3).collect::<Vec<_>>().join(" / ");
        x.notes.insert("release_probe".into(), json!({"status": "unobservable: the probe does not build or run against this tree", "detail": err}));
        return;
    }
    let mut seen = 0u64;
    let mut judged = 0u64;
    let mut found: Vec<String> = Vec::new();
    for l in stdout.lines().filter(|l| l.starts_with("RESULT ")) {
        if l.contains("control=SEEN") {
            seen += 1;
            if l.contains("=WIPED") || l.contains("=FOUND") {
                judged += 1;
            }
            if l.contains("nonce=FOUND") || l.contains("exporter=FOUND") {
                found.push(l.to_string());
            }
        }
    }
    x.evaluations += judged;
    x.notes.insert("release_probe".into(), json!({"status": if seen == 0 { "unobservable: the control object is not visible after free in this build" } else { "run" }, "probes_with_visible_control": seen, "judged": judged, "secrets_found_after_free": found.len()}));
    if let Some(first) = found.first() {
        x.failure = Some((
            "C16/release-build/secret-survives-free".into(),
            format!("in an optimised build without the verification hooks a dropped heap-allocated context still holds its secrets in the freed block ({} of {} probes): {}", found.len(), judged, first),
            json!({"probe": "release_wipe", "lines": found}),
        ));
    }
}

impl Property for P {
    type Case = Case;
    fn id(&self) -> &'static str {
        "C16"
    }
    fn rule(&self) -> String {
        "Generated: (suite of 48, mode, session inputs, role in {sender context, receiver context, shared secret from encap, shared secret from decap}, 0..=2 operations on the context before the drop, drop either directly or while the thread unwinds from a caught panic); swept: all 48 suites x 4 modes x 4 roles, contexts also after one operation, and every suite once with a drop during unwinding. \
         Oracle (memory image): the value is moved into a pattern-filled Box<MaybeUninit<_>>; base nonce, exporter secret (read through the read-only hook accessors) and the shared secret (public field) must be found BY VALUE in the slot before drop_in_place (otherwise the case is skipped as not observable) and be absent afterwards with zero bytes at those offsets. \
         A copy of a secret that is present after the drop at an offset where the fresh value did not have it was written by an operation and is reported; copies already present in the fresh value outside the live field (stale stack bytes inside uninitialised union storage) are recorded as an observation only. The four single-shot functions (allocating, in-place detached, and opening a forged ciphertext) are judged by the ledger alone over the call: >=1 wiping drop of the AEAD key buffer, a nonce and the shared secret, zero dirty drops. Oracle (ledger hook, single-threaded run): per context lifetime >=1 wiping drop of the temporary AEAD key buffer, of a nonce, the exporter secret and the shared secret, and zero drops that left non-zero bytes. \
         A constant-XOR-masked copy of a secret found after the drop is reported too (a keyed HMAC object kept in the context). Extra phase: probes/c16 is built in release mode WITHOUT the hook cfg and checks, for 4 suites x 2 modes x 2 roles, that the freed block of a dropped Box<context> no longer holds the secrets (with a control object that shows the observer works in that build). Non-trivial: cases in which every secret was located before the drop."
            .into()
    }
    fn assumptions(&self) -> Vec<String> {
        vec![
            "reading a dropped slot is outside Rust's abstract machine; it is done with volatile byte reads on heap memory the harness owns".into(),
            "copies left by moves and the cipher object's own key schedule (AES round keys) are outside the statement and not examined".into(),
            "the ledger call at the end of each Drop impl is part of the hook contract (MANIFEST.hooks)".into(),
        ]
    }
    fn prelude(&self, _tier: Tier) -> Result<Vec<String>, String> {
        crate::refmodel::selfcheck::oracle_selfcheck(16).map(|_| vec![])
    }
    fn strategy(&self, _tier: Tier) -> BoxedStrategy<Case> {
        (gen::session_any(), proptest::sample::select(vec![Role::Sender, Role::Receiver, Role::SharedSecretEncap, Role::SharedSecretDecap, Role::SingleShotSeal, Role::SingleShotOpen]), 0u8..3, prop::bool::weighted(0.25))
            .prop_map(|(sess, role, ops, unwinding)| Case { sess, role, ops, unwinding })
            .boxed()
    }
    fn cases(&self, tier: Tier) -> u32 {
        tier.pick(1000, 10000)
    }
    fn sweeps(&self, _tier: Tier) -> Vec<(String, Vec<Case>)> {
        let mut v = Vec::new();
        for (s, m) in gen::all_cells(&Suite::all48()) {
            for role in [Role::Sender, Role::Receiver, Role::SharedSecretEncap, Role::SharedSecretDecap] {
                v.push(Case { sess: gen::cell_session(s, m, 16), role, ops: 0, unwinding: false });
                // one operation before the drop (the per-message nonce at position 0 equals the base
                // nonce), and a drop during unwinding
                if matches!(role, Role::Sender | Role::Receiver) {
                    v.push(Case { sess: gen::cell_session(s, m, 16), role, ops: 1, unwinding: false });
                }
                if m == 0 {
                    v.push(Case { sess: gen::cell_session(s, m, 16), role, ops: 2, unwinding: true });
                }
            }
        }
        let mut ss = Vec::new();
        for (s, m) in gen::all_cells(&Suite::sealing36()) {
            for form in 0..3u8 {
                ss.push(Case { sess: gen::cell_session(s, m, 161), role: Role::SingleShotSeal, ops: form % 2, unwinding: false });
                ss.push(Case { sess: gen::cell_session(s, m, 161), role: Role::SingleShotOpen, ops: form, unwinding: false });
            }
        }
        vec![("suite_x_mode_x_role".into(), v), ("single_shot_forms_x_sealing_suites_x_modes".into(), ss)]
    }
    fn check(&self, case: &Case, obs: &mut Obs) -> Verdict {
        check(case, obs)
    }
    fn single_threaded(&self) -> bool {
        true
    }
    fn extra(&self, _tier: Tier, _seed: u64, x: &mut Extra) {
        release_probe(x);
    }
    fn replay_extra(&self, payload: &serde_json::Value, x: &mut Extra) {
        if payload["probe"] == "release_wipe" {
            release_probe(x);
        }
    }
}
