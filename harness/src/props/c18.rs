//! C18 - no hidden state: results depend only on explicit inputs, also across threads; the public
//! types are Send + Sync (compile probe).

use super::common::*;
use crate::engine::{pick_index, Extra, Obs, Property, Tier, Verdict};
use crate::gen::{self, Msg, Session};
use crate::suite::{DynReceiver, DynSender, Fail, ScriptRng};
use crate::util::{hex, Bytes};
use proptest::prelude::*;
use serde::{Deserialize, Serialize};
use serde_json::json;
use std::sync::mpsc;

#[derive(Clone, Debug, PartialEq, Eq, Serialize, Deserialize)]
pub enum SOp {
    Seal(Msg),
    OpenNext,
    /// a corrupted copy of the next message (rejected, consumes nothing)
    OpenBad,
    ExportS { ctx: Bytes, len: u16 },
    ExportR { ctx: Bytes, len: u16 },
}

#[derive(Clone, Debug, Serialize, Deserialize)]
pub struct Script {
    pub sess: Session,
    pub ops: Vec<SOp>,
}

#[derive(Clone, Debug, Serialize, Deserialize)]
pub struct Case {
    pub scripts: Vec<Script>,
    /// interleaving: each entry picks one of the sessions that still have steps left
    pub schedule: Vec<u16>,
    pub threads: u8,
}

pub struct P;

/// hpke's types are never required to be Send by the harness (the static proof lives in
/// probes/c18); values cross threads inside this wrapper.
struct SendBox<T>(T);
unsafe impl<T> Send for SendBox<T> {}
unsafe impl<T> Sync for SendBox<T> {}

#[derive(Default)]
struct Run {
    snd: Option<Box<dyn DynSender>>,
    rcv: Option<Box<dyn DynReceiver>>,
    sealed: Vec<(Vec<u8>, Vec<u8>)>,
    delivered: usize,
    next: usize, // 0 = setup, then ops[next-1]
    transcript: Vec<String>,
}

fn steps(s: &Script) -> usize {
    s.ops.len() + 1
}

fn short(b: &[u8]) -> String {
    // full values for short outputs, fingerprint for long ones: transcripts are compared exactly
    if b.len() <= 64 {
        hex(b)
    } else {
        format!("len{}:fnv{:016x}", b.len(), crate::util::fnv64(b))
    }
}

fn step(run: &mut Run, s: &Script) {
    let sess = &s.sess;
    let d = dsuite(sess);
    let sealing = sess.suite.aead.sealing();
    if run.next == 0 {
        let keys = sess.keys();
        let mut rng = ScriptRng::new(&sess.stream);
        // the info string is handed over in a buffer that every session set up on this thread reuses:
        // the address (and capacity) of an argument is not an explicit input either, and a cache
        // keyed on it instead of on the bytes must not go unnoticed because each case happens to own
        // a separate allocation
        thread_local! {
            static INFO_BUF: std::cell::RefCell<Vec<u8>> = std::cell::RefCell::new(Vec::with_capacity(8192));
        }
        let info_copy: Vec<u8> = sess.info.0.clone();
        let res = INFO_BUF.with(|b| {
            let mut b = b.borrow_mut();
            b.clear();
            b.extend_from_slice(&info_copy);
            let info: &[u8] = &b[..];
            match d.setup_sender(&sess.mode_s(&keys), &keys.pk_r, info, &mut rng) {
                Ok((enc, snd)) => {
                    let r = d.setup_receiver(&sess.mode_r(&keys), &keys.sk_r, &enc, info);
                    Ok((enc, snd, r))
                }
                Err(f) => Err(f),
            }
        });
        match res {
            Ok((enc, snd, rres)) => {
                run.transcript.push(format!("setup_sender: enc={} drawn={} calls={}", hex(&enc), rng.drawn(), rng.calls));
                run.snd = Some(snd);
                match rres {
                    Ok(r) => {
                        run.transcript.push("setup_receiver: ok".into());
                        run.rcv = Some(r);
                    }
                    Err(f) => run.transcript.push(format!("setup_receiver: {:?}", f)),
                }
            }
            Err(f) => run.transcript.push(format!("setup_sender: {:?}", f)),
        }
        run.next = 1;
        return;
    }
    let op = &s.ops[run.next - 1];
    run.next += 1;
    let line = match op {
        SOp::Seal(m) => match (&mut run.snd, sealing) {
            (Some(snd), true) => match snd.seal(&m.pt, &m.aad) {
                Ok(ct) => {
                    let l = format!("seal: {}", short(&ct));
                    run.sealed.push((ct, m.aad.0.clone()));
                    l
                }
                Err(e) => format!("seal: {:?}", e),
            },
            _ => "seal: n/a".into(),
        },
        SOp::OpenNext => match (&mut run.rcv, sealing) {
            (Some(rcv), true) if run.delivered < run.sealed.len() => {
                let (ct, aad) = &run.sealed[run.delivered];
                run.delivered += 1;
                match rcv.open(ct, aad) {
                    Ok(pt) => format!("open: {}", short(&pt)),
                    Err(e) => format!("open: {:?}", e),
                }
            }
            _ => "open: n/a".into(),
        },
        SOp::OpenBad => match (&mut run.rcv, sealing) {
            (Some(rcv), true) if run.delivered < run.sealed.len() => {
                let (ct, aad) = &run.sealed[run.delivered];
                let mut bad = ct.clone();
                let n = bad.len();
                bad[n - 1] ^= 1;
                match rcv.open(&bad, aad) {
                    Ok(pt) => format!("open-bad: {}", short(&pt)),
                    Err(e) => format!("open-bad: {:?}", e),
                }
            }
            _ => "open-bad: n/a".into(),
        },
        SOp::ExportS { ctx, len } => match &run.snd {
            Some(snd) => format!("export-s: {:?}", snd.export(ctx, *len as usize).map(|v| short(&v))),
            None => "export-s: n/a".into(),
        },
        SOp::ExportR { ctx, len } => match &run.rcv {
            Some(rcv) => format!("export-r: {:?}", rcv.export(ctx, *len as usize).map(|v| short(&v))),
            None => "export-r: n/a".into(),
        },
    };
    run.transcript.push(line);
}

/// The order in which (session index) steps run for a given schedule
fn order(case: &Case) -> Vec<usize> {
    let mut left: Vec<usize> = case.scripts.iter().map(steps).collect();
    let mut out = Vec::new();
    let mut k = 0usize;
    loop {
        let alive: Vec<usize> = (0..left.len()).filter(|&i| left[i] > 0).collect();
        if alive.is_empty() {
            break;
        }
        let pick = if k < case.schedule.len() { pick_index(case.schedule[k], alive.len()) } else { k % alive.len() };
        k += 1;
        let s = alive[pick];
        left[s] -= 1;
        out.push(s);
    }
    out
}

fn run_order(case: &Case, ord: &[usize]) -> Vec<Vec<String>> {
    let mut runs: Vec<Run> = case.scripts.iter().map(|_| Run::default()).collect();
    for &s in ord {
        step(&mut runs[s], &case.scripts[s]);
    }
    runs.into_iter().map(|r| r.transcript).collect()
}

fn sequential_order(case: &Case, reverse: bool) -> Vec<usize> {
    let mut idx: Vec<usize> = (0..case.scripts.len()).collect();
    if reverse {
        idx.reverse();
    }
    idx.into_iter().flat_map(|i| std::iter::repeat(i).take(steps(&case.scripts[i]))).collect()
}

/// Thread plan: `t` worker threads; step k of the interleaving runs on thread k mod t, so every
/// context keeps moving between threads.
fn run_threads_moving(case: &Case, ord: &[usize], t: usize) -> Vec<Vec<String>> {
    let scripts = &case.scripts;
    std::thread::scope(|sc| {
        let mut to_worker = Vec::new();
        let (back_tx, back_rx) = mpsc::channel::<SendBox<(usize, Run)>>();
        for _ in 0..t {
            let (tx, rx) = mpsc::channel::<SendBox<(usize, Run)>>();
            to_worker.push(tx);
            let back = back_tx.clone();
            sc.spawn(move || {
                while let Ok(SendBox((s, mut run))) = rx.recv() {
                    step(&mut run, &scripts[s]);
                    if back.send(SendBox((s, run))).is_err() {
                        break;
                    }
                }
            });
        }
        let mut runs: Vec<Option<Run>> = scripts.iter().map(|_| Some(Run::default())).collect();
        for (k, &s) in ord.iter().enumerate() {
            let run = runs[s].take().expect("run present");
            to_worker[k % t].send(SendBox((s, run))).expect("worker alive");
            let SendBox((s2, run)) = back_rx.recv().expect("worker answers");
            runs[s2] = Some(run);
        }
        drop(to_worker);
        runs.into_iter().map(|r| r.unwrap().transcript).collect()
    })
}

/// Every session wholly on its own thread, all at the same time
fn run_threads_concurrent(case: &Case) -> Vec<Vec<String>> {
    std::thread::scope(|sc| {
        let hs: Vec<_> = case
            .scripts
            .iter()
            .map(|s| {
                sc.spawn(move || {
                    let mut run = Run::default();
                    for _ in 0..steps(s) {
                        step(&mut run, s);
                    }
                    SendBox(run.transcript)
                })
            })
            .collect();
        hs.into_iter().map(|h| h.join().map(|b| b.0).unwrap_or_else(|_| vec!["thread panicked".into()])).collect()
    })
}

/// Concurrent exports through shared references to one sender and one receiver context
fn concurrent_exports(s: &Script, threads: usize) -> Result<(), String> {
    let sess = &s.sess;
    let d = dsuite(sess);
    let keys = sess.keys();
    let mut rng = ScriptRng::new(&sess.stream);
    let (enc, snd) = match d.setup_sender(&sess.mode_s(&keys), &keys.pk_r, &sess.info, &mut rng) {
        Ok(x) => x,
        Err(Fail::Construct(..)) | Err(Fail::Hpke(_)) => return Ok(()),
    };
    let Ok(rcv) = d.setup_receiver(&sess.mode_r(&keys), &keys.sk_r, &enc, &sess.info) else { return Ok(()) };
    let reqs: Vec<(Vec<u8>, usize)> = (0..6).map(|i| (gen::fill(i * 3, 9, i as u64), 16 + 7 * i)).collect();
    let seq_s: Vec<_> = reqs.iter().map(|(c, l)| snd.export(c, *l)).collect();
    let seq_r: Vec<_> = reqs.iter().map(|(c, l)| rcv.export(c, *l)).collect();
    let shared = SendBox((snd, rcv));
    let shared = &shared;
    let reqs = &reqs;
    let results: Vec<Vec<(Result<Vec<u8>, hpke::HpkeError>, Result<Vec<u8>, hpke::HpkeError>)>> = std::thread::scope(|sc| {
        let hs: Vec<_> = (0..threads)
            .map(|t| {
                sc.spawn(move || {
                    let (snd, rcv) = &shared.0;
                    // each thread walks the requests from a different starting point
                    (0..reqs.len())
                        .map(|i| {
                            let (c, l) = &reqs[(i + t) % reqs.len()];
                            (snd.export(c, *l), rcv.export(c, *l))
                        })
                        .collect::<Vec<_>>()
                })
            })
            .collect();
        hs.into_iter().map(|h| h.join().unwrap_or_default()).collect()
    });
    for (t, rs) in results.iter().enumerate() {
        if rs.len() != reqs.len() {
            return Err(format!("export thread {} panicked", t));
        }
        for (i, (a, b)) in rs.iter().enumerate() {
            let j = (i + t) % reqs.len();
            if a != &seq_s[j] || b != &seq_r[j] {
                return Err(format!("concurrent export #{} on thread {} differs from the sequential value", j, t));
            }
        }
    }
    Ok(())
}

fn first_diff(a: &[Vec<String>], b: &[Vec<String>]) -> Option<String> {
    for (s, (x, y)) in a.iter().zip(b.iter()).enumerate() {
        for (k, (l, r)) in x.iter().zip(y.iter()).enumerate() {
            if l != r {
                return Some(format!("session {} step {}: `{}` vs `{}`", s, k, l, r));
            }
        }
        if x.len() != y.len() {
            return Some(format!("session {}: {} vs {} transcript lines", s, x.len(), y.len()));
        }
    }
    None
}

fn check(case: &Case, obs: &mut Obs) -> Verdict {
    if case.scripts.is_empty() {
        return Verdict::skip("no sessions");
    }
    obs.label(format!("sessions:{}", case.scripts.len()));
    let base = run_order(case, &sequential_order(case, false));
    let ord = order(case);
    // non-trivial: the interleaving switches to another session between two seals of one context
    let mut last_seal_pos: Vec<Option<usize>> = vec![None; case.scripts.len()];
    let mut stepno = vec![0usize; case.scripts.len()];
    let mut switched = false;
    for (pos, &s) in ord.iter().enumerate() {
        let k = stepno[s];
        stepno[s] += 1;
        if k >= 1 && matches!(case.scripts[s].ops[k - 1], SOp::Seal(_)) {
            if let Some(p) = last_seal_pos[s] {
                if ord[p + 1..pos].iter().any(|&o| o != s) {
                    switched = true;
                }
            }
            last_seal_pos[s] = Some(pos);
        }
    }
    obs.nontrivial = case.scripts.len() >= 2 && switched;
    let shared_components = case.scripts.iter().skip(1).any(|s| {
        let b = &case.scripts[0].sess;
        s.sess.ikm_r == b.ikm_r || s.sess.info == b.info || s.sess.stream == b.stream || s.sess.psk == b.psk
    });
    if shared_components {
        obs.label("sessions-share-components");
    }
    let variants: Vec<(&str, Vec<Vec<String>>)> = vec![
        ("the same sessions run in reverse order", run_order(case, &sequential_order(case, true))),
        ("the generated interleaving of the sessions' operations", run_order(case, &ord)),
        ("every operation on a different thread (contexts moved between threads)", run_threads_moving(case, &ord, (case.threads as usize).clamp(2, 8))),
        ("every session on its own thread concurrently", run_threads_concurrent(case)),
        ("a second sequential execution later in the same process", run_order(case, &sequential_order(case, false))),
    ];
    for (name, tr) in &variants {
        obs.inner_checks += 1;
        if let Some(d) = first_diff(&base, tr) {
            let cls = name.split(' ').take(3).collect::<Vec<_>>().join("-");
            return Verdict::fail(
                format!("C18/transcript-differs/{}", cls),
                format!("the transcript of sequential execution differs from {}: {}", name, d),
            );
        }
    }
    obs.inner_checks += 1;
    if let Err(e) = concurrent_exports(&case.scripts[0], (case.threads as usize).clamp(2, 8)) {
        return Verdict::fail("C18/concurrent-export", e);
    }
    Verdict::Pass
}

fn sop() -> BoxedStrategy<SOp> {
    prop_oneof![
        4 => gen::msg(60).prop_map(SOp::Seal),
        1 => gen::msg(2500).prop_map(SOp::Seal),
        3 => Just(SOp::OpenNext),
        1 => Just(SOp::OpenBad),
        1 => (gen::bytes(20), 0u16..80).prop_map(|(ctx, len)| SOp::ExportS { ctx, len }),
        1 => (gen::bytes(20), 0u16..80).prop_map(|(ctx, len)| SOp::ExportR { ctx, len }),
    ]
    .boxed()
}

/// Transcript of one session of a case executed alone (used by the child process)
pub fn single_session_transcript(case: &Case, idx: usize) -> Vec<String> {
    let mut run = Run::default();
    let s = &case.scripts[idx];
    for _ in 0..steps(s) {
        step(&mut run, s);
    }
    run.transcript
}

/// Process-history independence: the transcript of a session computed in this (long-lived, many
/// suites already used) process must equal the one computed by a fresh process that runs nothing else.
fn fresh_process_check(x: &mut Extra) {
    use std::io::Write;
    let exe = match std::env::current_exe() {
        Ok(e) => e,
        Err(e) => {
            x.infra_error = Some(format!("current_exe: {}", e));
            return;
        }
    };
    let sweeps = P.sweeps(Tier::Quick);
    let cases = &sweeps[0].1;
    let mut compared = 0u64;
    for k in (0..cases.len()).step_by(7) {
        let case = &cases[k];
        let idx = k % case.scripts.len();
        let here = single_session_transcript(case, idx);
        let js = serde_json::to_string(case).unwrap_or_default();
        let child = std::process::Command::new(&exe)
            .args(["c18-child", &idx.to_string()])
            .stdin(std::process::Stdio::piped())
            .stdout(std::process::Stdio::piped())
            .stderr(std::process::Stdio::null())
            .spawn();
        let mut child = match child {
            Ok(c) => c,
            Err(e) => {
                x.infra_error = Some(format!("cannot spawn child process: {}", e));
                return;
            }
        };
        if let Some(mut si) = child.stdin.take() {
            let _ = si.write_all(js.as_bytes());
        }
        let out = match child.wait_with_output() {
            Ok(o) => o,
            Err(e) => {
                x.infra_error = Some(format!("child process: {}", e));
                return;
            }
        };
        let there: Vec<String> = match serde_json::from_slice(&out.stdout) {
            Ok(v) => v,
            Err(_) => {
                x.infra_error = Some("child process produced no transcript".into());
                return;
            }
        };
        compared += 1;
        if here != there {
            let d = here.iter().zip(there.iter()).position(|(a, b)| a != b).unwrap_or(0);
            x.failure = Some((
                "C18/transcript-differs/fresh-process".into(),
                format!(
                    "session {} of sweep case {} ({}): the transcript computed in this process (after many other library calls) differs from the one a fresh process computes for the same inputs, first at step {}: `{}` vs `{}`",
                    idx, k, case.scripts[idx].sess.suite.label(), d, here.get(d).cloned().unwrap_or_default(), there.get(d).cloned().unwrap_or_default()
                ),
                json!({"probe": "fresh_process", "sweep_case": k, "session": idx}),
            ));
            return;
        }
    }
    x.evaluations += compared;
    x.notes.insert("fresh_process_comparisons".into(), json!(compared));
}

fn probe_dir() -> std::path::PathBuf {
    crate::engine::root().join("probes").join("c18")
}

/// Compiles probes/c18 against the tree under test. Ok(true) = compiled; Ok(false) + diagnostic =
/// a type lost Send/Sync; Err = infrastructure problem.
fn send_sync_probe() -> Result<(bool, String), String> {
    let tree = std::env::var("HPKE_TREE").unwrap_or_else(|_| "/repo".into());
    let tbase = std::env::var("VERIF_TARGET_BASE").unwrap_or_else(|_| crate::engine::root().join("target").to_string_lossy().into_owned());
    let mut cmd = std::process::Command::new("cargo");
    cmd.current_dir(probe_dir()).env("CARGO_NET_OFFLINE", "true").env_remove("RUSTFLAGS").args(["check", "--offline", "--quiet", "--target-dir", &format!("{}/c18probe", tbase)]);
    if tree != "/repo" {
        cmd.args(["--config", &format!("paths=[\"{}\"]", tree)]);
    }
    let out = cmd.output().map_err(|e| format!("cannot run cargo: {}", e))?;
    let stderr = String::from_utf8_lossy(&out.stderr).to_string();
    if out.status.success() {
        return Ok((true, String::new()));
    }
    let lost = stderr.contains("E0277") && (stderr.contains("cannot be sent between threads safely") || stderr.contains("cannot be shared between threads safely"));
    if lost {
        let diag: String = stderr.lines().filter(|l| !l.trim().is_empty()).take(40).collect::<Vec<_>>().join("\n");
        Ok((false, diag))
    } else {
        Err(format!("Send/Sync probe failed to build for another reason:\n{}", stderr.lines().take(30).collect::<Vec<_>>().join("\n")))
    }
}

impl Property for P {
    type Case = Case;
    fn id(&self) -> &'static str {
        "C18"
    }
    fn rule(&self) -> String {
        "Generated: scripts of 2..=6 independent sessions (any of 48 suites), each a short list of setup, seals, opens, a failing open and exports on both sides; sessions deliberately share components with the first one with probability 1/2 each (recipient key, info, psk, RNG stream, suite) so that a cache keyed on part of the inputs is hit, or (probability 1/2) have the same suite, mode and concatenation psk_id||info resp. psk||psk_id as the first one cut at a different place, so that a cache keyed on an unframed concatenation is hit; an info of the same length may be a permutation of the first session's (same byte sum); every setup on a thread receives its info in one reused buffer (same address), so that a cache keyed on the argument's address, length or checksum is hit; an interleaving (owned by the harness, single-threaded) and a thread count 2..=8. \
         Oracle: per-session transcripts (enc, ciphertexts, plaintexts, exports, errors, RNG bytes drawn) are identical in: sequential order, reverse order, the generated interleaving, every operation on a different thread (contexts moved between threads through channels), every session on its own thread concurrently, and a second sequential execution later in the process; concurrent shared-reference exports equal the sequential values; for 28 sweep sessions (one per 7th suite x mode cell) the transcript computed in this long-lived process equals the one computed by a fresh child process that runs nothing else (process-history independence). Compile probe probes/c18: Send + Sync for contexts, keys, tags, encapsulated keys, shared secrets, PskBundle, OpModeS/R, HpkeError over all 48 suites. \
         Non-trivial: >=2 sessions whose interleaving switches context between two seals of the same context."
            .into()
    }
    fn assumptions(&self) -> Vec<String> {
        vec!["real-thread interleavings are whatever the OS produces; order dependence and caching are attacked deterministically by the owned schedules".into()]
    }
    fn strategy(&self, _tier: Tier) -> BoxedStrategy<Case> {
        let script = (gen::session_with(gen::suite_any()), proptest::collection::vec(sop(), 1..=8), any::<u8>());
        (proptest::collection::vec(script, 2..=6), proptest::collection::vec(any::<u16>(), 0..=40), 2u8..=8)
            .prop_map(|(mut raw, schedule, threads)| {
                // a re-split (mask bit 7) only means something in a PSK mode: the base session gets one
                if raw.iter().skip(1).any(|r| r.2 & 128 != 0) {
                    raw[0].0.mode |= 1;
                }
                let base = raw[0].0.clone();
                let scripts = raw
                    .into_iter()
                    .enumerate()
                    .map(|(i, (mut sess, ops, mask))| {
                        if i > 0 && mask & 128 != 0 {
                            // same suite, mode and concatenation of two adjacent key-schedule inputs as the
                            // base session, cut at a different place (a cache keyed on the unframed
                            // concatenation confuses the two)
                            sess.suite = base.suite;
                            sess.mode = base.mode;
                            sess.psk = base.psk.clone();
                            sess.psk_id = base.psk_id.clone();
                            sess.info = base.info.clone();
                            let (a, b) = if mask & 64 != 0 { (base.psk.0.clone(), base.psk_id.0.clone()) } else { (base.psk_id.0.clone(), base.info.0.clone()) };
                            let second_may_be_empty = mask & 64 == 0;
                            let mut cat = a.clone();
                            cat.extend_from_slice(&b);
                            let shift = 1 + (mask as usize & 3);
                            let cut = if i % 2 == 1 && a.len() + shift <= cat.len() - usize::from(!second_may_be_empty) {
                                a.len() + shift
                            } else if a.len() > shift {
                                a.len() - shift
                            } else if a.len() + 1 <= cat.len() - usize::from(!second_may_be_empty) {
                                a.len() + 1
                            } else {
                                a.len()
                            };
                            let (x, y) = (Bytes(cat[..cut].to_vec()), Bytes(cat[cut..].to_vec()));
                            if mask & 64 != 0 {
                                sess.psk = x;
                                sess.psk_id = y;
                            } else {
                                sess.psk_id = x;
                                sess.info = y;
                            }
                        } else if i > 0 {
                            if mask & 1 != 0 {
                                sess.suite = base.suite;
                            }
                            if mask & 2 != 0 {
                                sess.ikm_r = base.ikm_r.clone();
                            }
                            if mask & 4 != 0 {
                                sess.info = base.info.clone();
                            }
                            if mask & 8 != 0 {
                                sess.psk = base.psk.clone();
                                sess.psk_id = base.psk_id.clone();
                            }
                            if mask & 16 != 0 {
                                sess.stream = base.stream.clone();
                            }
                            if mask & 32 != 0 {
                                // same info length, different content (a cache keyed on the length)
                                let l = base.info.len();
                                sess.info = if mask & 1 != 0 && l >= 2 {
                                    // a permutation of the same bytes: same length, same byte sum / xor
                                    let mut v = base.info.0.clone();
                                    if v.iter().all(|&x| x == v[0]) {
                                        v[0] = v[0].wrapping_add(1);
                                        v[1] = v[1].wrapping_sub(1);
                                    } else if mask & 2 != 0 {
                                        v.reverse();
                                        if v == base.info.0 {
                                            v.rotate_left(1);
                                        }
                                    } else {
                                        v.rotate_left(1 + (mask as usize >> 3) % (l - 1).max(1));
                                    }
                                    Bytes(v)
                                } else {
                                    Bytes(gen::fill(l, 9, mask as u64 + i as u64))
                                };
                            }
                            if mask & 64 != 0 {
                                sess.ikm_s = base.ikm_s.clone();
                                sess.mode = base.mode;
                            }
                        }
                        Script { sess, ops }
                    })
                    .collect();
                Case { scripts, schedule, threads }
            })
            .boxed()
    }
    fn cases(&self, tier: Tier) -> u32 {
        tier.pick(1500, 15000)
    }
    fn sweeps(&self, _tier: Tier) -> Vec<(String, Vec<Case>)> {
        // one fixed three-session script per suite x mode cell: two sessions share everything but the
        // RNG stream, the third shares only the info length
        let mut v = Vec::new();
        for (s, m) in gen::all_cells(&crate::refmodel::hpke_ref::Suite::all48()) {
            let a = gen::cell_session(s, m, 18);
            let mut b = a.clone();
            b.stream = Bytes(gen::fill(160, 9, 1818));
            let mut c = gen::cell_session(s, (m + 1) % 4, 19);
            c.info = Bytes(gen::fill(a.info.len(), 9, 77));
            // and one session identical to the first except that its info is a rotation of the first's
            // (same length, same multiset of bytes), run right after it
            let mut rot = a.clone();
            let mut ri = a.info.0.clone();
            ri.rotate_left(3);
            rot.info = Bytes(ri);
            let rot_script = Script { sess: rot, ops: vec![SOp::Seal(gen::fixed_msgs(18)[0].clone()), SOp::ExportS { ctx: Bytes(b"x".to_vec()), len: 24 }, SOp::OpenNext, SOp::ExportR { ctx: Bytes(b"x".to_vec()), len: 24 }] };
            let ops = vec![
                SOp::Seal(gen::fixed_msgs(18)[0].clone()),
                SOp::ExportS { ctx: Bytes(b"x".to_vec()), len: 24 },
                SOp::Seal(gen::fixed_msgs(18)[2].clone()),
                SOp::OpenBad,
                SOp::OpenNext,
                SOp::OpenNext,
                SOp::ExportR { ctx: Bytes(b"x".to_vec()), len: 24 },
            ];
            if m & 1 != 0 {
                // PSK modes: two more sessions right after the first whose (psk_id, info) resp. (psk, psk_id)
                // concatenate to the same bytes as the first one's, cut one byte later
                let mut d = a.clone();
                d.psk_id = Bytes([&a.psk_id.0[..], &a.info.0[..1]].concat());
                d.info = Bytes(a.info.0[1..].to_vec());
                let mut e = a.clone();
                e.psk = Bytes([&a.psk.0[..], &a.psk_id.0[..1]].concat());
                e.psk_id = Bytes(a.psk_id.0[1..].to_vec());
                v.push(Case {
                    scripts: vec![Script { sess: a.clone(), ops: ops.clone() }, Script { sess: d, ops: ops.clone() }, Script { sess: a.clone(), ops: ops.clone() }, Script { sess: e, ops: ops.clone() }],
                    schedule: (0..24).map(|i| (i * 21845) as u16).collect(),
                    threads: 3,
                });
            }
            v.push(Case {
                scripts: vec![Script { sess: a, ops: ops.clone() }, rot_script, Script { sess: b, ops: ops.clone() }, Script { sess: c, ops }],
                schedule: (0..24).map(|i| (i * 21845) as u16).collect(),
                threads: 3,
            });
        }
        vec![("suite_x_mode_three_session_scripts".into(), v)]
    }
    fn check(&self, case: &Case, obs: &mut Obs) -> Verdict {
        check(case, obs)
    }
    fn shrink_iters(&self) -> u32 {
        400
    }
    fn extra(&self, _tier: Tier, _seed: u64, x: &mut Extra) {
        fresh_process_check(x);
        if x.failure.is_some() || x.infra_error.is_some() {
            return;
        }
        match send_sync_probe() {
            Ok((true, _)) => {
                x.evaluations += 1;
                x.notes.insert("send_sync_probe".into(), json!({"compiled": true, "types_asserted": "AeadCtxS/AeadCtxR over 48 suites, keys, encapsulated keys, shared secrets, tags, OpModeS/R, PskBundle, HpkeError"}));
            }
            Ok((false, diag)) => {
                x.failure = Some(("C18/send-sync/lost".into(), format!("a public type is no longer Send + Sync:\n{}", diag), json!({"probe": "send_sync", "diagnostic": diag})));
            }
            Err(e) => x.infra_error = Some(e),
        }
    }
    fn replay_extra(&self, payload: &serde_json::Value, x: &mut Extra) {
        if payload["probe"] == "send_sync" || payload["probe"] == "fresh_process" {
            self.extra(Tier::Quick, 0, x);
        }
    }
}
