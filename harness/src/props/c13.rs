//! C13 - no panic on attacker-controlled input: malformed data yields errors of the allowed kinds.

use super::common::*;
use crate::engine::{catch, Extra, Obs, Property, Tier, Verdict};
use crate::gen::{self, Session};
use crate::refmodel::hpke_ref::{AeadId, KdfId, KemId, Suite};
use crate::suite::{self, Fail, ScriptRng, SerKind};
use crate::util::{hex_short, Bytes};
use hpke::HpkeError;
use proptest::prelude::*;
use serde::{Deserialize, Serialize};

#[derive(Clone, Debug, Serialize, Deserialize)]
pub enum Case {
    /// arbitrary bytes into a deserialiser
    FromBytes { kem: KemId, aead: AeadId, kind: SerKind, bytes: Bytes },
    /// arbitrary (psk, psk_id) into PskBundle::new
    Bundle { psk: Bytes, psk_id: Bytes },
    /// the receiver is set up from arbitrary encapsulated-key bytes / sender-key bytes, then opens
    /// arbitrary ciphertext bytes through every opening interface
    Receiver {
        sess: Session,
        enc: Option<Bytes>,
        pk_s: Option<Bytes>,
        ct: Bytes,
        aad: Bytes,
        tag: Bytes,
        /// when set (and the encapsulated key is honest): both contexts are placed at this sequence
        /// position (hook) and one honest message is exchanged before the attacker's bytes arrive;
        /// at 2^64-1 this leaves the receiver exhausted
        #[serde(default)]
        pos: Option<u64>,
        /// overrides `enc` with a value related to the session's own keys (what a remote party can
        /// always send): 1 = the expected sender key pkS, 2 = the recipient's own public key,
        /// 3 = the same-DH twin of pkS (NIST: negated point, X25519: bit 255 set), 4 = the generator,
        /// 5 = the same-DH twin of the recipient's key
        #[serde(default)]
        enc_rel: u8,
    },
    /// the sender is set up against arbitrary recipient-key bytes with long info/aad, then seals
    Sender { sess: Session, pk_r: Option<Bytes>, pt: Bytes, aad: Bytes },
    /// export of any length with any context
    Export { sess: Session, ctx: Bytes, len: usize },
    /// key derivation from arbitrary ikm
    Derive { kem: KemId, ikm: Bytes },
}

pub struct P;

fn no_panic<T>(site: &str, f: impl FnOnce() -> T) -> Result<T, Verdict> {
    catch(f).map_err(|msg| Verdict::fail(format!("C13/{}/panic", site), format!("{} panicked: {}", site, msg)))
}

fn allowed(site: &str, e: HpkeError, ok: &[HpkeError]) -> Result<(), Verdict> {
    let matches = ok.iter().any(|a| std::mem::discriminant(a) == std::mem::discriminant(&e));
    if matches {
        Ok(())
    } else {
        Err(Verdict::fail(format!("C13/{}/error-kind", site), format!("{} failed with {:?}; only {:?} are allowed there", site, e, ok)))
    }
}

const DESER: [HpkeError; 2] = [HpkeError::IncorrectInputLength(0, 0), HpkeError::ValidationError];

fn chk_fail(site: &str, f: &Fail, ok: &[HpkeError]) -> Result<(), Verdict> {
    match f {
        Fail::Hpke(e) => allowed(site, *e, ok),
        // a deserialiser or the bundle constructor rejected the bytes first
        Fail::Construct("psk_bundle", e) => allowed("PskBundle::new", *e, &[HpkeError::InvalidPskBundle]),
        Fail::Construct(step, e) => allowed(&format!("from_bytes({})", step), *e, &DESER),
    }
}

fn check(case: &Case, obs: &mut Obs) -> Verdict {
    match check_inner(case, obs) {
        Ok(()) => Verdict::Pass,
        Err(v) => v,
    }
}

fn check_inner(case: &Case, obs: &mut Obs) -> Result<(), Verdict> {
    match case {
        Case::FromBytes { kem, aead, kind, bytes } => {
            obs.label(format!("entry:from_bytes:{:?}", kind));
            let d = suite::get(Suite { kem: *kem, kdf: KdfId::Sha256, aead: *aead });
            let size = super::c12::rfc_size(*kem, *aead, *kind);
            obs.nontrivial = bytes.len() == size;
            obs.inner_checks += 1;
            let r = no_panic("from_bytes", || d.ser(*kind).reserialize(bytes))?;
            if let Err(e) = r {
                allowed("from_bytes", e, &DESER)?;
            }
            Ok(())
        }
        Case::Bundle { psk, psk_id } => {
            obs.label("entry:PskBundle::new");
            obs.nontrivial = psk.is_empty() != psk_id.is_empty();
            obs.inner_checks += 1;
            let r = no_panic("PskBundle::new", || suite::psk_bundle_new(psk, psk_id))?;
            if let Err(e) = r {
                allowed("PskBundle::new", e, &[HpkeError::InvalidPskBundle])?;
            }
            Ok(())
        }
        Case::Receiver { sess, enc, pk_s, ct, aad, tag, pos, enc_rel } => {
            obs.label("entry:setup_receiver+open");
            labels_for(sess, obs);
            let d = dsuite(sess);
            let keys = sess.keys();
            let nt = sess.suite.aead.nt();
            obs.label(if ct.len() < nt { "ct:shorter-than-tag" } else if ct.len() == nt { "ct:exactly-tag" } else { "ct:longer" });
            // honest encapsulation unless the case supplies attacker bytes
            let mut honest_snd = None;
            let related: Option<Vec<u8>> = {
                let kem = sess.suite.kem;
                let pks = if keys.pk_s.is_empty() { crate::gen::ref_keypair(kem, &sess.ikm_s).1 } else { keys.pk_s.clone() };
                match enc_rel {
                    1 => Some(pks),
                    2 => Some(keys.pk_r.clone()),
                    3 => super::c07::same_dh_encoding(kem, &pks),
                    4 => {
                        let mut one = vec![0u8; kem.nsk()];
                        match kem.curve() {
                            Some(c) => {
                                one[kem.nsk() - 1] = 1;
                                c.base_mul_sec1(&one)
                            }
                            None => {
                                let mut g = vec![0u8; 32];
                                g[0] = 9;
                                Some(g)
                            }
                        }
                    }
                    5 => super::c07::same_dh_encoding(kem, &keys.pk_r),
                    _ => None,
                }
            };
            if related.is_some() {
                obs.label(format!("enc-related-to-session-key:{}", enc_rel));
            }
            let enc_owned = related.map(Bytes).or_else(|| enc.clone());
            let enc = &enc_owned;
            let enc_bytes = match enc {
                Some(e) => e.0.clone(),
                None => match honest_sender(d, sess, &keys) {
                    Ok((e, s)) => {
                        honest_snd = Some(s);
                        e
                    }
                    Err(v) => return Err(v),
                },
            };
            let mut mr = sess.mode_r(&keys);
            if let Some(p) = pk_s {
                mr.pk_s = p.clone();
            }
            obs.nontrivial = ct.len() >= nt || ct.len() < nt;
            let rcv = no_panic("setup_receiver", || d.setup_receiver(&mr, &keys.sk_r, &enc_bytes, &sess.info))?;
            obs.inner_checks += 1;
            match rcv {
                Err(f) => chk_fail("setup_receiver", &f, &[HpkeError::DecapError])?,
                Ok(mut rcv) => {
                    obs.label("receiver-context-built");
                    if let (Some(p), Some(snd), None) = (pos, honest_snd.as_mut(), pk_s) {
                        snd.set_seq(*p);
                        rcv.set_seq(*p);
                        if let Ok(c) = snd.seal(b"honest message before the attack", b"") {
                            let _ = no_panic("open", || rcv.open(&c, b""))?;
                        }
                        if rcv.seq_state().1 {
                            obs.label("receiver-exhausted-before-attack");
                        }
                    }
                    obs.inner_checks += 2;
                    let r = no_panic("open", || rcv.open(ct, aad))?;
                    if let Err(e) = r {
                        allowed("open", e, &[HpkeError::OpenError, HpkeError::MessageLimitReached])?;
                    }
                    let mut buf = ct.0.clone();
                    let r = no_panic("open_in_place_detached", || rcv.open_in_place(&mut buf, aad, tag))?;
                    if let Err(f) = r {
                        chk_fail("open_in_place_detached", &f, &[HpkeError::OpenError, HpkeError::MessageLimitReached])?;
                    }
                    let mut out = vec![0u8; 32];
                    let _ = no_panic("export", || rcv.export(aad, out.len()).map(|v| out.copy_from_slice(&v)))?;
                }
            }
            obs.inner_checks += 2;
            let r = no_panic("single_shot_open", || d.single_shot_open(&mr, &keys.sk_r, &enc_bytes, &sess.info, ct, aad))?;
            if let Err(f) = r {
                chk_fail("single_shot_open", &f, &[HpkeError::DecapError, HpkeError::OpenError])?;
            }
            let mut buf = ct.0.clone();
            let r = no_panic("single_shot_open_in_place_detached", || d.single_shot_open_in_place(&mr, &keys.sk_r, &enc_bytes, &sess.info, &mut buf, aad, tag))?;
            if let Err(f) = r {
                chk_fail("single_shot_open_in_place_detached", &f, &[HpkeError::DecapError, HpkeError::OpenError])?;
            }
            Ok(())
        }
        Case::Sender { sess, pk_r, pt, aad } => {
            obs.label("entry:setup_sender+seal");
            labels_for(sess, obs);
            let d = dsuite(sess);
            let keys = sess.keys();
            let pk = pk_r.as_ref().map(|b| b.0.clone()).unwrap_or_else(|| keys.pk_r.clone());
            obs.nontrivial = pk_r.is_some() || sess.info.len() > 1000 || aad.len() > 1000;
            let ms = sess.mode_s(&keys);
            let mut rng = ScriptRng::new(&sess.stream);
            obs.inner_checks += 2;
            let r = no_panic("setup_sender", || d.setup_sender(&ms, &pk, &sess.info, &mut rng))?;
            match r {
                Err(f) => chk_fail("setup_sender", &f, &[HpkeError::EncapError])?,
                Ok((_, mut snd)) => {
                    let r = no_panic("seal", || snd.seal(pt, aad))?;
                    if let Err(e) = r {
                        allowed("seal", e, &[HpkeError::SealError, HpkeError::MessageLimitReached])?;
                    }
                }
            }
            let mut rng = ScriptRng::new(&sess.stream);
            let r = no_panic("single_shot_seal", || d.single_shot_seal(&ms, &pk, &sess.info, pt, aad, &mut rng))?;
            if let Err(f) = r {
                chk_fail("single_shot_seal", &f, &[HpkeError::EncapError, HpkeError::SealError])?;
            }
            Ok(())
        }
        Case::Export { sess, ctx, len } => {
            obs.label("entry:export");
            labels_for(sess, obs);
            let d = dsuite(sess);
            let keys = sess.keys();
            let (enc, snd) = honest_sender(d, sess, &keys)?;
            let rcv = honest_receiver(d, sess, &keys, &enc)?;
            obs.nontrivial = *len > 255 * sess.suite.kdf.nh() || ctx.len() > 1000;
            obs.inner_checks += 2;
            let r = no_panic("export", || snd.export(ctx, *len))?;
            if let Err(e) = r {
                allowed("export", e, &[HpkeError::KdfOutputTooLong])?;
            }
            let r = no_panic("export", || rcv.export(ctx, *len))?;
            if let Err(e) = r {
                allowed("export", e, &[HpkeError::KdfOutputTooLong])?;
            }
            Ok(())
        }
        Case::Derive { kem, ikm } => {
            obs.label("entry:derive_keypair");
            obs.nontrivial = ikm.len() != 32;
            obs.inner_checks += 1;
            let d = suite::get_kem(*kem);
            let (sk, pk) = no_panic("derive_keypair", || d.derive_keypair(ikm))?;
            if sk.len() != kem.nsk() || pk.len() != kem.npk() {
                return Err(Verdict::fail("C13/derive_keypair/size", format!("derive_keypair returned sizes {} / {}", sk.len(), pk.len())));
            }
            let _ = hex_short(&pk);
            Ok(())
        }
    }
}

fn big_bytes(tier: Tier) -> BoxedStrategy<Bytes> {
    let big = tier.pick(70_000usize, 1 << 20);
    prop_oneof![
        12 => gen::bytes(300),
        2 => gen::bytes(5000),
        1 => (proptest::sample::select(vec![65535usize, 65536, 65537, 100_000.min(big), big]), 0u8..9, any::<u64>()).prop_map(|(l, k, s)| Bytes(gen::fill(l, k, s))),
    ]
    .boxed()
}

/// Bytes shaped like an encapsulated/public key of the KEM: right length mostly, tag 0x04 mostly
fn keyish(kem: KemId) -> BoxedStrategy<Bytes> {
    let n = kem.npk();
    prop_oneof![
        6 => (0u8..12, any::<u64>()).prop_map(move |(k, s)| {
            let mut b = gen::fill(n, k, s);
            if n > 32 {
                b[0] = 4;
            }
            Bytes(b)
        }),
        // a real key with one bit flipped
        4 => (any::<u64>(), any::<u16>()).prop_map(move |(s, bit)| {
            let mut b = crate::refmodel::hpke_ref::derive_key_pair(kem, &s.to_le_bytes()).1;
            let i = crate::engine::pick_index(bit, b.len() * 8);
            b[i / 8] ^= 1 << (i % 8);
            Bytes(b)
        }),
        2 => gen::bytes(300),
        1 => Just(Bytes(vec![])),
        // X25519: the small-order encodings (other KEMs: just another wrong-length input)
        2 => (0usize..14).prop_map(|i| Bytes(crate::corpus::small_order_14().map(|v| v[i % v.len()].to_vec()).unwrap_or_default())),
    ]
    .boxed()
}

impl Property for P {
    type Case = Case;
    fn id(&self) -> &'static str {
        "C13"
    }
    fn rule(&self) -> String {
        "Generated, for every sealing suite x mode: arbitrary bytes into every from_bytes; PskBundle::new; setup_receiver with attacker-shaped encapsulated keys and sender keys (right length, real key with a flipped bit, arbitrary length, empty); open / open_in_place_detached / single_shot_open / single_shot_open_in_place_detached with ciphertexts of length 0, 1, Nt-1, Nt, Nt+1, block boundaries, 64 KiB+ (thorough: 1 MiB) and arbitrary tag bytes; setup_sender against attacker-shaped recipient keys with info/aad up to 64 KiB+; export lengths 0..=70000 with long contexts; derive_keypair with arbitrary ikm. \
         Receivers are optionally placed at a sequence position (hook) and handed one honest message first, so that attacker bytes also reach an exhausted context; 10% of the sessions use the empty PSK bundle in a PSK mode; the encapsulated key may be a value related to the session's own keys (the expected sender key, the recipient's own key, their same-DH twins, the generator). Swept: every ciphertext length 0..=Nt+17 x 36 suites (mode rotating) on a fresh and on a just-exhausted receiver, with the empty bundle for every 8th length; every key length 0..=2*size+2 for all 16 types; every length 0..=2100 of exporter context (one- and multi-block L), info, aad, psk and psk_id per KDF. \
         Long run: 200 000 (thorough 2^22) consecutive rejected deliveries on one receiver per AEAD (a counter of failures inside a context must not overflow into a panic). Oracle: under catch_unwind, with debug assertions and overflow checks compiled in: no panic; errors only from the allowed set per entry point (deserialisers: IncorrectInputLength/ValidationError; setup_sender: EncapError; setup_receiver: DecapError; open: OpenError/MessageLimitReached; seal: SealError/MessageLimitReached; export: KdfOutputTooLong; PskBundle::new: InvalidPskBundle). \
         Non-trivial: inputs that get past the first length check plus the short/empty ciphertext class. Excluded: write_exact with a wrong-size buffer and export-only seal/open (documented caller-side panics)."
            .into()
    }
    fn assumptions(&self) -> Vec<String> {
        vec!["inputs near usize::MAX / AES-GCM's 64 GiB limit cannot be allocated and are not generated".into()]
    }
    fn strategy(&self, tier: Tier) -> BoxedStrategy<Case> {
        let from_bytes = (gen::kem(), proptest::sample::select(AeadId::ALL.to_vec()), proptest::sample::select(vec![SerKind::Pk, SerKind::Sk, SerKind::Enc, SerKind::Tag]), any::<bool>(), gen::bytes(300), any::<u64>())
            .prop_map(|(kem, aead, kind, right_len, bytes, seed)| {
                let bytes = if right_len { Bytes(gen::fill(super::c12::rfc_size(kem, aead, kind), (seed % 12) as u8, seed)) } else { bytes };
                Case::FromBytes { kem, aead, kind, bytes }
            });
        let bundle = (big_bytes(tier), big_bytes(tier)).prop_map(|(psk, psk_id)| Case::Bundle { psk, psk_id });
        let t = tier;
        let receiver = gen::session_sealing().prop_flat_map(move |sess| {
            let kem = sess.suite.kem;
            let ct = prop_oneof![
                6 => proptest::sample::select(vec![0usize, 1, 15, 16, 17, 31, 32, 33, 47, 48, 64, 65]).prop_flat_map(|l| (Just(l), 0u8..9, any::<u64>())).prop_map(|(l, k, s)| Bytes(gen::fill(l, k, s))),
                3 => big_bytes(t),
            ];
            let pos = proptest::option::weighted(0.35, prop_oneof![2 => (0u64..3).prop_map(|d| u64::MAX - d), 1 => gen::position()]);
            (Just(sess), proptest::option::weighted(0.5, keyish(kem)), proptest::option::weighted(0.3, keyish(kem)), ct, big_bytes(t), prop_oneof![4 => gen::bytes_exact(16), 1 => gen::bytes(40)], pos, prop::bool::weighted(0.1), prop_oneof![5 => Just(0u8), 1 => 1u8..=5])
        })
        .prop_map(|(mut sess, enc, pk_s, ct, aad, tag, pos, empty_bundle, enc_rel)| {
            if pk_s.is_some() {
                sess.mode |= 2;
            }
            if empty_bundle {
                // the library accepts the empty bundle in PSK modes
                sess.psk = Bytes::default();
                sess.psk_id = Bytes::default();
            }
            Case::Receiver { sess, enc, pk_s, ct, aad, tag, pos, enc_rel }
        });
        let sender = gen::session_sealing()
            .prop_flat_map(move |sess| {
                let kem = sess.suite.kem;
                (Just(sess), proptest::option::weighted(0.6, keyish(kem)), big_bytes(t), big_bytes(t), big_bytes(t))
            })
            .prop_map(|(mut sess, pk_r, pt, aad, info)| {
                sess.info = info;
                if pt.len() % 10 == 3 {
                    sess.psk = Bytes::default();
                    sess.psk_id = Bytes::default();
                }
                Case::Sender { sess, pk_r, pt, aad }
            });
        let export = (gen::session_any(), big_bytes(tier), prop_oneof![3 => 0usize..=70_000, 1 => 0usize..400]).prop_map(|(sess, ctx, len)| Case::Export { sess, ctx, len });
        let derive = (gen::kem(), big_bytes(tier)).prop_map(|(kem, ikm)| Case::Derive { kem, ikm });
        prop_oneof![3 => from_bytes, 1 => bundle, 6 => receiver, 3 => sender, 2 => export, 1 => derive].boxed()
    }
    fn cases(&self, tier: Tier) -> u32 {
        tier.pick(15000, 120000)
    }
    fn sweeps(&self, _tier: Tier) -> Vec<(String, Vec<Case>)> {
        let mut cts = Vec::new();
        for (i, s) in Suite::sealing36().into_iter().enumerate() {
            for len in 0..=(16 + 17) {
                let sess = gen::cell_session(s, ((i + len) % 4) as u8, 13);
                cts.push(Case::Receiver { sess: sess.clone(), enc: None, pk_s: None, ct: Bytes(gen::fill(len, 9, len as u64)), aad: Bytes(vec![]), tag: Bytes(gen::fill(16, 9, 1)), pos: None, enc_rel: 0 });
                // the same on a receiver that has just been exhausted, and with the empty PSK bundle
                cts.push(Case::Receiver { sess: sess.clone(), enc: None, pk_s: None, ct: Bytes(gen::fill(len, 9, len as u64)), aad: Bytes(vec![]), tag: Bytes(gen::fill(16, 9, 1)), pos: Some(u64::MAX), enc_rel: 0 });
                if len % 8 == 0 {
                    let mut e = sess.clone();
                    e.psk = Bytes::default();
                    e.psk_id = Bytes::default();
                    cts.push(Case::Receiver { sess: e.clone(), enc: None, pk_s: None, ct: Bytes(gen::fill(len, 9, len as u64)), aad: Bytes(vec![]), tag: Bytes(gen::fill(16, 9, 1)), pos: None, enc_rel: 0 });
                    cts.push(Case::Sender { sess: e, pk_r: None, pt: Bytes(gen::fill(len, 9, 3)), aad: Bytes(vec![]) });
                }
            }
        }
        let mut small = Vec::new();
        for (i, u) in crate::corpus::small_order_14().unwrap_or_default().into_iter().enumerate() {
            for mode in 0..4u8 {
                let s = Suite { kem: KemId::X25519, kdf: KdfId::Sha256, aead: AeadId::SEALING[i % 3] };
                let ct = Bytes(gen::fill(40, 9, i as u64));
                small.push(Case::Receiver { sess: gen::cell_session(s, mode, 13), enc: Some(Bytes(u.to_vec())), pk_s: None, ct: ct.clone(), aad: Bytes(vec![]), tag: Bytes(gen::fill(16, 9, 2)), pos: None, enc_rel: 0 });
                small.push(Case::Receiver { sess: gen::cell_session(s, mode | 2, 13), enc: None, pk_s: Some(Bytes(u.to_vec())), ct: ct.clone(), aad: Bytes(vec![]), tag: Bytes(gen::fill(16, 9, 2)), pos: None, enc_rel: 0 });
                small.push(Case::Sender { sess: gen::cell_session(s, mode, 13), pk_r: Some(Bytes(u.to_vec())), pt: Bytes(b"pt".to_vec()), aad: Bytes(vec![]) });
            }
        }
        for kem in KemId::ALL {
            for mode in 0..4u8 {
                for rel in 1..=5u8 {
                    let s = Suite { kem, kdf: kem.kdf(), aead: AeadId::SEALING[(rel % 3) as usize] };
                    small.push(Case::Receiver { sess: gen::cell_session(s, mode, 131), enc: None, pk_s: None, ct: Bytes(gen::fill(33, 9, rel as u64)), aad: Bytes(vec![]), tag: Bytes(gen::fill(16, 9, 2)), pos: None, enc_rel: rel });
                }
            }
        }
        let mut keys = Vec::new();
        for kem in KemId::ALL {
            for kind in [SerKind::Pk, SerKind::Sk, SerKind::Enc] {
                let size = super::c12::rfc_size(kem, AeadId::ChaCha, kind);
                for len in 0..=(2 * size + 2) {
                    keys.push(Case::FromBytes { kem, aead: AeadId::ChaCha, kind, bytes: Bytes(gen::fill(len, 1, 0)) });
                    let mut b = gen::fill(len, 9, len as u64);
                    if !b.is_empty() {
                        b[0] = 4;
                    }
                    keys.push(Case::FromBytes { kem, aead: AeadId::ChaCha, kind, bytes: Bytes(b) });
                }
            }
        }
        for aead in AeadId::ALL {
            for len in 0..=34 {
                keys.push(Case::FromBytes { kem: KemId::X25519, aead, kind: SerKind::Tag, bytes: Bytes(gen::fill(len, 9, 5)) });
            }
        }
        // every length 0..=2100 of each attacker-controlled string, per KDF: exporter context (two
        // output lengths), info and aad at the receiver, psk/psk_id at the receiver
        let mut dense = Vec::new();
        for (ki, kdf) in KdfId::ALL.into_iter().enumerate() {
            let s = Suite { kem: KemId::X25519, kdf, aead: AeadId::SEALING[ki % 3] };
            for l in 0..=2100usize {
                dense.push(Case::Export { sess: gen::cell_session(s, (l % 4) as u8, 132), ctx: Bytes(gen::fill(l, 5, l as u64)), len: if l % 2 == 0 { 16 } else { kdf.nh() + 3 } });
                if l % 2 == ki % 2 {
                    dense.push(Case::Export { sess: gen::cell_session(s, (l % 4) as u8, 132), ctx: Bytes(gen::fill(l, 5, l as u64)), len: 2 * kdf.nh() + 1 });
                }
                let mut a = gen::cell_session(s, (l % 4) as u8, 133);
                a.info = Bytes(gen::fill(l, 5, 7 + l as u64));
                dense.push(Case::Receiver { sess: a, enc: None, pk_s: None, ct: Bytes(gen::fill(20, 9, 1)), aad: Bytes(gen::fill(l, 5, 9 + l as u64)), tag: Bytes(gen::fill(16, 9, 2)), pos: None, enc_rel: 0 });
                if l >= 1 {
                    let mut b = gen::cell_session(s, 1 + 2 * (l % 2) as u8, 134);
                    if l % 4 < 2 {
                        b.psk = Bytes(gen::fill(l, 5, 11 + l as u64));
                    } else {
                        b.psk_id = Bytes(gen::fill(l, 5, 13 + l as u64));
                    }
                    dense.push(Case::Receiver { sess: b, enc: None, pk_s: None, ct: Bytes(gen::fill(20, 9, 1)), aad: Bytes(vec![]), tag: Bytes(gen::fill(16, 9, 2)), pos: None, enc_rel: 0 });
                }
            }
        }
        vec![("every_length_0_to_2100_of_exporter_context_info_aad_psk_pskid".into(), dense), ("every_ciphertext_length_0_to_Nt_plus_17_x_36_suites".into(), cts), ("every_key_length_all_types".into(), keys), ("small_order_and_session_related_keys_every_role_and_mode".into(), small)]
    }
    fn extra(&self, tier: Tier, _seed: u64, x: &mut Extra) {
        // many consecutive rejected deliveries on ONE receiver (public API only): a per-context count
        // of failures is state no case-sized history reaches
        let n: u64 = tier.pick(200_000, 1 << 22);
        let results: Vec<(AeadId, LongRun)> = std::thread::scope(|sc| {
            let hs: Vec<_> = AeadId::SEALING.into_iter().map(|a| (a, sc.spawn(move || long_rejection_run(a, n)))).collect();
            hs.into_iter().map(|(a, h)| (a, h.join().unwrap_or_else(|_| LongRun::Infra("long run thread died".into())))).collect()
        });
        let mut runs = serde_json::Map::new();
        for (a, r) in results {
            let fail = match r {
                LongRun::Fine(k) => {
                    x.evaluations += k;
                    runs.insert(a.name().to_string(), serde_json::json!({"consecutive_rejected_deliveries_on_one_receiver": k, "hooks_used": false}));
                    None
                }
                LongRun::Infra(m) => {
                    x.infra_error = Some(m);
                    None
                }
                LongRun::Panicked(m) => Some(("C13/long-run/panic", m)),
                // other outcomes belong to C05 / C06
                LongRun::Accepted(_) | LongRun::ChangedError(_) | LongRun::NextRejected(_) => None,
            };
            if let Some((sig, msg)) = fail {
                if x.failure.is_none() {
                    x.failure = Some((sig.to_string(), msg, serde_json::json!({"long_rejection_run": a.name(), "n": n})));
                }
            }
        }
        x.notes.insert("long_rejection_runs".into(), serde_json::Value::Object(runs));
    }
    fn replay_extra(&self, payload: &serde_json::Value, x: &mut Extra) {
        if payload.get("long_rejection_run").is_none() {
            return;
        }
        let n = payload["n"].as_u64().unwrap_or(200_000);
        let a = AeadId::SEALING.into_iter().find(|a| Some(a.name()) == payload["long_rejection_run"].as_str()).unwrap_or(AeadId::ChaCha);
        let fail = match long_rejection_run(a, n) {
            LongRun::Fine(_) | LongRun::Infra(_) => None,
            LongRun::Panicked(m) => Some(("C13/long-run/panic", m)),
                // other outcomes belong to C05 / C06
                LongRun::Accepted(_) | LongRun::ChangedError(_) | LongRun::NextRejected(_) => None,
        };
        if let Some((sig, msg)) = fail {
            x.failure = Some((sig.to_string(), msg, payload.clone()));
        }
    }
    fn check(&self, case: &Case, obs: &mut Obs) -> Verdict {
        check(case, obs)
    }
    fn shrink_iters(&self) -> u32 {
        512
    }
}
