//! C05 - the receiver accepts exactly the next in-sequence message; failures change nothing; after
//! 2^64 successes every call returns MessageLimitReached.

use super::common::*;
use crate::engine::{pick_index, Extra, Obs, Property, Tier, Verdict};
use serde_json::json;
use crate::gen::{self, Msg, Session};
use crate::refmodel::hpke_ref::{AeadId, KdfId, KemId, Suite};
use crate::suite::{self, DynSuite, Fail};
use crate::util::{hex_short, Bytes};
use hpke::HpkeError;
use proptest::prelude::*;
use serde::{Deserialize, Serialize};

#[derive(Clone, Debug, PartialEq, Eq, Serialize, Deserialize)]
pub enum Kind {
    /// the message sealed with the sequence number the receiver expects
    Next,
    /// an already accepted message (index scaled into 0..p)
    Replay(u16),
    /// a message from further ahead (index scaled into p+1..)
    Future(u16),
    /// the next message with one ciphertext-body bit flipped
    TamperCt(u16),
    /// the next message with one tag bit flipped
    TamperTag(u8),
    /// the next message with different associated data
    WrongAad,
    /// fewer bytes than a tag (allocating API only: the in-place API cannot express it)
    Short(u8),
    /// unrelated bytes of the given length (>= tag length for the in-place API)
    Garbage(u16, u64),
    /// the next plaintext sealed by the sender at a position that differs from the expected one only
    /// in bit `b` of the sequence number (b in 0..64): must be rejected like any other position
    Aliased(u8),
}

#[derive(Clone, Debug, PartialEq, Eq, Serialize, Deserialize)]
pub struct Delivery {
    pub kind: Kind,
    pub in_place: bool,
}

#[derive(Clone, Debug, Serialize, Deserialize)]
pub struct Case {
    pub sess: Session,
    pub spy: bool,
    /// both contexts start at this sequence position (hook)
    pub start: u64,
    /// the messages the sender seals, in order, starting at `start`
    pub pool: Vec<Msg>,
    pub ops: Vec<Delivery>,
}

pub struct P;

fn kind_name(k: &Kind) -> &'static str {
    match k {
        Kind::Next => "next",
        Kind::Replay(_) => "replay",
        Kind::Future(_) => "future",
        Kind::TamperCt(_) => "tampered-ct",
        Kind::TamperTag(_) => "tampered-tag",
        Kind::WrongAad => "wrong-aad",
        Kind::Short(_) => "short-ct",
        Kind::Garbage(..) => "garbage",
        Kind::Aliased(_) => "aliased-position",
    }
}

fn check(case: &Case, obs: &mut Obs) -> Verdict {
    let sess = &case.sess;
    let d: &dyn DynSuite = if case.spy { suite::get_spy(sess.suite.kem, sess.suite.kdf) } else { dsuite(sess) };
    labels_for(sess, obs);
    let nt = 16usize;
    let keys = sess.keys();
    let (enc, mut snd) = match honest_sender(d, sess, &keys) {
        Ok(x) => x,
        Err(v) => return v,
    };
    let mut rcv = match honest_receiver(d, sess, &keys, &enc) {
        Ok(x) => x,
        Err(v) => return v,
    };
    snd.set_seq(case.start);
    rcv.set_seq(case.start);
    // the sender seals the pool; it may run into its own limit near 2^64-1
    let mut sealed: Vec<(Vec<u8>, Msg)> = Vec::new();
    for m in &case.pool {
        match snd.seal(&m.pt, &m.aad) {
            Ok(ct) => sealed.push((ct, m.clone())),
            Err(HpkeError::MessageLimitReached) => break,
            Err(e) => return Verdict::skip(format!("construction_failed(seal:{:?})", e)),
        }
    }
    if sealed.is_empty() {
        return Verdict::skip("empty pool");
    }
    let mut p: usize = 0; // successes so far
    let mut exhausted = false;
    let mut pattern = 0u8; // 1 after a success, 2 after success->reject, 3 after success->reject->success
    for (step, dl) in case.ops.iter().enumerate() {
        let pos = case.start.wrapping_add(p as u64);
        // build the delivery
        let (ct, aad, expect_ok): (Vec<u8>, Vec<u8>, bool) = match &dl.kind {
            Kind::Next => {
                if p >= sealed.len() {
                    continue;
                }
                (sealed[p].0.clone(), sealed[p].1.aad.0.clone(), true)
            }
            Kind::Replay(j) => {
                if p == 0 {
                    continue;
                }
                let j = pick_index(*j, p);
                (sealed[j].0.clone(), sealed[j].1.aad.0.clone(), false)
            }
            Kind::Future(j) => {
                if p + 1 >= sealed.len() {
                    continue;
                }
                let j = p + 1 + pick_index(*j, sealed.len() - p - 1);
                (sealed[j].0.clone(), sealed[j].1.aad.0.clone(), false)
            }
            Kind::TamperCt(b) => {
                if p >= sealed.len() || sealed[p].0.len() <= nt {
                    continue;
                }
                let mut c = sealed[p].0.clone();
                let bit = pick_index(*b, (c.len() - nt) * 8);
                c[bit / 8] ^= 1 << (bit % 8);
                (c, sealed[p].1.aad.0.clone(), false)
            }
            Kind::TamperTag(b) => {
                if p >= sealed.len() {
                    continue;
                }
                let mut c = sealed[p].0.clone();
                let l = c.len();
                c[l - nt + (*b as usize % nt)] ^= 1 << (b % 8);
                (c, sealed[p].1.aad.0.clone(), false)
            }
            Kind::WrongAad => {
                if p >= sealed.len() {
                    continue;
                }
                let mut a = sealed[p].1.aad.0.clone();
                a.push(0x01);
                (sealed[p].0.clone(), a, false)
            }
            Kind::Short(n) => {
                let src = &sealed[p.min(sealed.len() - 1)].0;
                let n = (*n as usize) % nt;
                (src[..n.min(src.len())].to_vec(), vec![], false)
            }
            Kind::Garbage(len, seed) => {
                // lengths 0..300, or (top bit set) up to ~8 KiB
                let raw = if *len & 0x8000 != 0 { (*len & 0x1fff) as usize } else { *len as usize % 300 };
                let l = if dl.in_place { raw.max(nt) } else { raw };
                (gen::fill(l, 7, *seed), vec![], false)
            }
            Kind::Aliased(b) => {
                if p >= sealed.len() {
                    continue;
                }
                // seal the same plaintext on the sender at position pos XOR 2^b (hook), then put the
                // sender back where it was
                let other = pos ^ (1u64 << (*b % 64));
                let (s0, latch) = snd.seq_state();
                if latch {
                    continue;
                }
                snd.set_seq(other);
                let r = snd.seal(&sealed[p].1.pt, &sealed[p].1.aad);
                snd.set_seq(s0);
                match r {
                    Ok(c) => (c, sealed[p].1.aad.0.clone(), false),
                    Err(_) => continue,
                }
            }
        };
        let in_place = dl.in_place && ct.len() >= nt;
        let api = if in_place { "open_in_place_detached" } else { "open" };
        let cls = format!("{}/{}", if in_place { "open-in-place" } else { "open-alloc" }, kind_name(&dl.kind));
        let before;
        let res: Result<Vec<u8>, HpkeError> = if in_place {
            let split = ct.len() - nt;
            let mut buf = ct[..split].to_vec();
            before = buf.clone();
            match rcv.open_in_place(&mut buf, &aad, &ct[split..]) {
                Ok(()) => Ok(buf),
                Err(Fail::Hpke(e)) => {
                    if e == HpkeError::MessageLimitReached && buf != before {
                        return Verdict::fail(format!("C05/{}/limit-buffer-modified", cls), format!("step {}: {} returned MessageLimitReached but changed the buffer", step, api));
                    }
                    Err(e)
                }
                Err(f) => return construct_skip("tag", &f),
            }
        } else {
            rcv.open(&ct, &aad)
        };
        obs.inner_checks += 1;
        let p0 = p;
        let ctx = || format!("step {} ({} via {}, receiver position {} = start {} + {} successes, {})", step, kind_name(&dl.kind), api, pos, case.start, p0, d.suite().label());
        if exhausted {
            obs.label("delivery-after-exhaustion");
            match res {
                Err(HpkeError::MessageLimitReached) => {}
                other => {
                    return Verdict::fail(
                        format!("C05/{}/after-exhaustion", cls),
                        format!("{}: after 2^64 successes the call returned {:?} instead of MessageLimitReached", ctx(), other.map(|v| v.len())),
                    )
                }
            }
            continue;
        }
        if expect_ok {
            match res {
                Ok(pt) if pt == sealed[p].1.pt.0 => {
                    if pos == u64::MAX {
                        exhausted = true;
                        obs.label("crossed-limit");
                    }
                    p += 1;
                    pattern = if pattern == 2 { 3 } else { pattern.max(1) };
                }
                Ok(pt) => return Verdict::fail(format!("C05/{}/wrong-plaintext", cls), format!("{}: opened to {} instead of {}", ctx(), hex_short(&pt), hex_short(&sealed[p].1.pt))),
                Err(e) => return Verdict::fail(format!("C05/{}/next-rejected", cls), format!("{}: the in-sequence message was rejected with {:?}", ctx(), e)),
            }
        } else {
            match res {
                Err(HpkeError::OpenError) => {
                    if pattern == 1 {
                        pattern = 2;
                    }
                }
                Ok(pt) => return Verdict::fail(format!("C05/{}/accepted", cls), format!("{}: a message that is not the next in sequence was accepted ({} bytes)", ctx(), pt.len())),
                Err(e) => return Verdict::fail(format!("C05/{}/error-kind", cls), format!("{}: rejected with {:?} instead of OpenError", ctx(), e)),
            }
        }
        // the concrete counter must equal the abstract model after every step
        let (s, latch) = rcv.seq_state();
        let want = case.start.wrapping_add(p as u64);
        if latch != exhausted || (!exhausted && s != want) {
            return Verdict::fail(
                format!("C05/{}/position-moved", cls),
                format!("{}: afterwards the context reports (seq={}, exhausted={}) but {} successes from start {} give (seq={}, exhausted={})", ctx(), s, latch, p, case.start, want, exhausted),
            );
        }
    }
    // single-shot opening sees position 0 of a fresh context
    if case.start == 0 && !case.spy {
        let mr = sess.mode_r(&keys);
        obs.inner_checks += 1;
        match d.single_shot_open(&mr, &keys.sk_r, &enc, &sess.info, &sealed[0].0, &sealed[0].1.aad) {
            Ok(pt) if pt == sealed[0].1.pt.0 => {}
            other => return Verdict::fail("C05/single-shot/first-rejected", format!("single_shot_open of message 0 gave {:?}", other.map(|v| v.len()))),
        }
        if sealed.len() > 1 {
            obs.inner_checks += 1;
            match d.single_shot_open(&mr, &keys.sk_r, &enc, &sess.info, &sealed[1].0, &sealed[1].1.aad) {
                Err(Fail::Hpke(HpkeError::OpenError)) => {}
                other => return Verdict::fail("C05/single-shot/future-accepted", format!("single_shot_open of message 1 (a future message for a fresh context) gave {:?}", other.map(|v| v.len()))),
            }
        }
    }
    obs.nontrivial = pattern == 3 || exhausted;
    Verdict::Pass
}

fn delivery() -> BoxedStrategy<Delivery> {
    let kind = prop_oneof![
        6 => Just(Kind::Next),
        2 => any::<u16>().prop_map(Kind::Replay),
        2 => any::<u16>().prop_map(Kind::Future),
        2 => any::<u16>().prop_map(Kind::TamperCt),
        2 => any::<u8>().prop_map(Kind::TamperTag),
        1 => Just(Kind::WrongAad),
        2 => any::<u8>().prop_map(Kind::Short),
        1 => (any::<u16>(), any::<u64>()).prop_map(|(l, s)| Kind::Garbage(l, s)),
        2 => (0u8..64).prop_map(Kind::Aliased),
    ];
    (kind, any::<bool>()).prop_map(|(kind, in_place)| Delivery { kind, in_place }).boxed()
}

/// Public-API-only endurance run: `n` rejected deliveries (alternating forms, tampered tag /
/// garbage / short) on one receiver, then the genuine first message must still be accepted and the
/// second after it. "After any history of open attempts" includes very long ones.
fn long_rejection_run(aead: AeadId, n: u64) -> Result<u64, (String, String)> {
    let s = Suite { kem: KemId::X25519, kdf: KdfId::Sha256, aead };
    let d = suite::get(s);
    let sess = gen::cell_session(s, 0, 505);
    let keys = sess.keys();
    let infra = |m: &str| ("infra".to_string(), m.to_string());
    let (enc, mut snd) = honest_sender(d, &sess, &keys).map_err(|_| infra("setup failed"))?;
    let mut rcv = honest_receiver(d, &sess, &keys, &enc).map_err(|_| infra("setup failed"))?;
    let c0 = snd.seal(b"first message", b"a0").map_err(|_| infra("seal failed"))?;
    let c1 = snd.seal(b"second message", b"").map_err(|_| infra("seal failed"))?;
    let mut bad_tag = c0[c0.len() - 16..].to_vec();
    bad_tag[0] ^= 1;
    let garbage = [0x5au8; 16];
    for i in 0..n {
        let r = match i % 4 {
            0 => {
                let mut body = c0[..c0.len() - 16].to_vec();
                rcv.open_in_place(&mut body, b"a0", &bad_tag).map_err(|f| format!("{:?}", f)).map(|_| ())
            }
            1 => rcv.open(&garbage, b"").map_err(|e| format!("{:?}", e)).map(|_| ()),
            2 => rcv.open(&c1, b"").map_err(|e| format!("{:?}", e)).map(|_| ()), // a future message
            _ => rcv.open(&c0[..7], b"a0").map_err(|e| format!("{:?}", e)).map(|_| ()),
        };
        match r {
            Err(e) if e.contains("OpenError") => {}
            other => {
                return Err((
                    "C05/long-run/rejection-changed".into(),
                    format!("{}: rejected delivery #{} on one receiver returned {:?} instead of OpenError", aead.name(), i, other),
                ))
            }
        }
    }
    match rcv.open(&c0, b"a0") {
        Ok(p) if p == b"first message" => {}
        other => {
            return Err((
                "C05/long-run/next-rejected-after-many-failures".into(),
                format!("{}: after {} rejected deliveries the in-sequence message was not accepted: {:?}", aead.name(), n, other.map(|p| p.len())),
            ))
        }
    }
    match rcv.open(&c1, b"") {
        Ok(p) if p == b"second message" => Ok(n),
        other => Err(("C05/long-run/next-rejected-after-many-failures".into(), format!("{}: after {} rejected deliveries and one success the next message was not accepted: {:?}", aead.name(), n, other.map(|p| p.len())))),
    }
}

impl Property for P {
    type Case = Case;
    fn id(&self) -> &'static str {
        "C05"
    }
    fn extra(&self, tier: Tier, _seed: u64, x: &mut Extra) {
        let n: u64 = tier.pick(3 << 20, 1 << 26);
        let results: Vec<(AeadId, Result<u64, (String, String)>)> = std::thread::scope(|sc| {
            let hs: Vec<_> = AeadId::SEALING.into_iter().map(|a| (a, sc.spawn(move || long_rejection_run(a, n)))).collect();
            hs.into_iter().map(|(a, h)| (a, h.join().unwrap_or_else(|_| Err(("infra".into(), "long run panicked".into()))))).collect()
        });
        let mut runs = serde_json::Map::new();
        for (a, r) in results {
            match r {
                Ok(k) => {
                    x.evaluations += k;
                    runs.insert(a.name().to_string(), json!({"rejected_deliveries_on_one_receiver": k, "hooks_used": false}));
                }
                Err((sig, msg)) if sig == "infra" => x.infra_error = Some(msg),
                Err((sig, msg)) => {
                    if x.failure.is_none() {
                        x.failure = Some((sig, msg, json!({"long_rejection_run": a.name(), "n": n})));
                    }
                }
            }
        }
        x.notes.insert("long_rejection_runs".into(), serde_json::Value::Object(runs));
    }
    fn replay_extra(&self, payload: &serde_json::Value, x: &mut Extra) {
        let n = payload["n"].as_u64().unwrap_or(3 << 20);
        let a = AeadId::SEALING.into_iter().find(|a| Some(a.name()) == payload["long_rejection_run"].as_str()).unwrap_or(AeadId::ChaCha);
        if let Err((sig, msg)) = long_rejection_run(a, n) {
            if sig != "infra" {
                x.failure = Some((sig, msg, payload.clone()));
            }
        }
    }
    fn rule(&self) -> String {
        "Generated: (sealing suite or SpyAead, mode, session, start position from every byte-carry boundary / 2^64-1-d / log-uniform / 0 (hook), pool of 1..=8 messages sealed from that position, history of 1..=24 deliveries {next, replay, future, tampered ct bit, tampered tag bit, wrong aad, short (<Nt), garbage, the same plaintext sealed at a position differing in one bit of the sequence number (hook)} x {open, open_in_place_detached}). \
         Swept: every delivery kind x both APIs at start positions {0, 1, 255, 256, 2^64-2, 2^64-1} including the exhausted state. Endurance: 3*2^20 (thorough: 2^26) rejected deliveries on ONE receiver per AEAD through the public API only, after which the in-sequence messages must still be accepted. \
         Oracle: model p = successes; only Next succeeds (returning pt_p) and advances by exactly one; everything else gives OpenError and does not move the position (hook state == model after every step); after the success at 2^64-1 every call of either form gives MessageLimitReached with the in-place buffer unchanged; single_shot_open accepts message 0 and rejects message 1. \
         Non-trivial: a history containing success -> rejected delivery -> success, or one that crosses the limit."
            .into()
    }
    fn assumptions(&self) -> Vec<String> {
        vec!["buffer contents after OpenError are documented as undefined and are not constrained".into(), "positions >= 2^24 are reached through the verif_set_seq hook".into()]
    }
    fn strategy(&self, _tier: Tier) -> BoxedStrategy<Case> {
        let start = prop_oneof![3 => Just(0u64), 4 => gen::position(), 3 => (0u64..6).prop_map(|d| u64::MAX - d)];
        (
            gen::session_with(gen::suite_sealing_cheap()),
            prop::bool::weighted(0.2),
            start,
            proptest::collection::vec(prop_oneof![12 => gen::msg(80), 1 => gen::msg(3000)], 1..=8),
            proptest::collection::vec(delivery(), 1..=24),
        )
            .prop_map(|(sess, spy, start, pool, ops)| Case { sess, spy, start, pool, ops })
            .boxed()
    }
    fn cases(&self, tier: Tier) -> u32 {
        tier.pick(20000, 200000)
    }
    fn sweeps(&self, _tier: Tier) -> Vec<(String, Vec<Case>)> {
        let mut v = Vec::new();
        let kinds = |x: u16| vec![Kind::Aliased((x % 64) as u8), Kind::Aliased(8), Kind::Aliased(16), Kind::Aliased(24), Kind::Aliased(32), Kind::Aliased(40), Kind::Aliased(48), Kind::Aliased(56), Kind::Aliased(63), Kind::Replay(x), Kind::Future(x), Kind::TamperCt(x), Kind::TamperTag(x as u8), Kind::WrongAad, Kind::Short((x % 16) as u8), Kind::Short(0), Kind::Garbage(40 + x % 7, x as u64), Kind::Garbage(0, 1), Kind::Garbage(0x8000 | 1500, 3), Kind::Garbage(0x8000 | 4096, 4)];
        for start in [0u64, 1, 255, 256, 65535, u64::MAX - 2, u64::MAX - 1, u64::MAX] {
            for (k, aead) in AeadId::SEALING.into_iter().enumerate() {
                let s = Suite { kem: KemId::X25519, kdf: KdfId::Sha256, aead };
                let mut ops = Vec::new();
                for round in 0..4u16 {
                    ops.push(Delivery { kind: Kind::Next, in_place: round % 2 == 1 });
                    for kind in kinds(round.wrapping_mul(9001).wrapping_add(7)) {
                        ops.push(Delivery { kind: kind.clone(), in_place: false });
                        ops.push(Delivery { kind, in_place: true });
                    }
                }
                v.push(Case {
                    sess: gen::cell_session(s, ((k as u64 + start % 4) % 4) as u8, 5),
                    spy: false,
                    start,
                    pool: (0..5).map(|i| Msg { pt: Bytes(gen::fill(10 + 7 * i, 5, i as u64)), aad: Bytes(gen::fill(i, 5, 50)) }).collect(),
                    ops,
                });
            }
        }
        vec![("kinds_x_apis_x_positions".into(), v)]
    }
    fn check(&self, case: &Case, obs: &mut Obs) -> Verdict {
        check(case, obs)
    }
}
