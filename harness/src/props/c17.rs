//! C17 - every feature combination builds and behaves the same; with the guard off the crate is
//! unchanged. Enumeration of the 64 feature subsets with build / differential oracles; each case
//! drives cargo in its own lane (target directory).

use crate::engine::{Obs, Property, Tier, Verdict};
use crate::util::mix;
use proptest::prelude::*;
use serde::{Deserialize, Serialize};
use std::collections::BTreeMap;
use std::path::PathBuf;
use std::process::Command;
use std::sync::{Mutex, OnceLock};

pub const FEATURES: [&str; 6] = ["alloc", "std", "x25519", "p256", "p384", "p521"];
const KEMS: [&str; 4] = ["x25519", "p256", "p384", "p521"];
const LANES: usize = 5;

#[derive(Clone, Debug, Serialize, Deserialize)]
pub enum Case {
    /// one feature subset (bit i = FEATURES[i])
    Subset { mask: u8 },
    /// once per run: guard on/off equivalence, hook API hidden with the guard off, baseline tests
    /// with the guard off, examples and benchmark build under their required features
    Guard,
}

pub struct P;

fn features_of(mask: u8) -> Vec<&'static str> {
    (0..6).filter(|i| mask & (1 << i) != 0).map(|i| FEATURES[i]).collect()
}

fn tree() -> String {
    std::env::var("HPKE_TREE").unwrap_or_else(|_| "/repo".into())
}

fn tbase() -> PathBuf {
    PathBuf::from(std::env::var("VERIF_TARGET_BASE").unwrap_or_else(|_| crate::engine::root().join("target").to_string_lossy().into_owned())).join("c17")
}

fn probe(name: &str) -> PathBuf {
    crate::engine::root().join("probes").join("c17").join(name)
}

struct Lane(usize);
fn lanes() -> &'static Mutex<Vec<usize>> {
    static L: OnceLock<Mutex<Vec<usize>>> = OnceLock::new();
    L.get_or_init(|| Mutex::new((0..LANES).collect()))
}
impl Lane {
    fn take() -> Lane {
        loop {
            if let Some(l) = lanes().lock().unwrap().pop() {
                return Lane(l);
            }
            std::thread::sleep(std::time::Duration::from_millis(50));
        }
    }
    fn dir(&self, sub: &str) -> String {
        tbase().join(format!("lane{}", self.0)).join(sub).to_string_lossy().into_owned()
    }
}
impl Drop for Lane {
    fn drop(&mut self) {
        lanes().lock().unwrap().push(self.0);
    }
}

struct Out {
    ok: bool,
    stdout: String,
    stderr: String,
}

/// Runs cargo. `guard`: build hpke with --cfg hpke_verif.
fn cargo(cwd: &str, args: &[&str], guard: bool) -> Result<Out, String> {
    let mut cmd = Command::new("cargo");
    cmd.current_dir(cwd).env("CARGO_NET_OFFLINE", "true").env("CARGO_TERM_COLOR", "never");
    if guard {
        cmd.env("RUSTFLAGS", "--cfg hpke_verif");
    } else {
        cmd.env_remove("RUSTFLAGS");
    }
    cmd.args(args);
    let t = tree();
    if t != "/repo" && cwd != t {
        cmd.args(["--config", &format!("paths=[\"{}\"]", t)]);
    }
    let o = cmd.output().map_err(|e| format!("cannot run cargo: {}", e))?;
    let out = Out { ok: o.status.success(), stdout: String::from_utf8_lossy(&o.stdout).into_owned(), stderr: String::from_utf8_lossy(&o.stderr).into_owned() };
    // failures that are about the environment, not about the tree under test
    if !out.ok {
        for pat in ["No space left", "failed to download", "no matching package named", "failed to get `", "Blocking waiting for file lock", "could not create", "Permission denied", "attempting to make an HTTP request"] {
            if out.stderr.contains(pat) {
                return Err(format!("cargo failed for an environmental reason ({}): {}", pat, tail(&out.stderr, 8)));
            }
        }
    }
    Ok(out)
}

fn tail(s: &str, n: usize) -> String {
    let lines: Vec<&str> = s.lines().filter(|l| !l.trim().is_empty()).collect();
    lines[lines.len().saturating_sub(n)..].join("\n")
}

fn errors_of(s: &str) -> String {
    let e: Vec<&str> = s.lines().filter(|l| l.starts_with("error")).take(6).collect();
    if e.is_empty() {
        tail(s, 6)
    } else {
        e.join("\n")
    }
}

fn parse_digests(stdout: &str) -> Option<BTreeMap<String, String>> {
    if !stdout.lines().any(|l| l.trim() == "DONE") {
        return None;
    }
    Some(stdout.lines().filter_map(|l| l.strip_prefix("KEM ")).filter_map(|l| l.split_once(' ')).map(|(a, b)| (a.to_string(), b.trim().to_string())).collect())
}

fn run_inplace(lane: &Lane, feats: &[&str], guard: bool) -> Result<Result<BTreeMap<String, String>, String>, String> {
    let f = feats.join(" ");
    let td = lane.dir(if guard { "inplace_guard" } else { "inplace" });
    let dir = probe("inplace");
    let out = cargo(&dir.to_string_lossy(), &["run", "--offline", "--quiet", "--no-default-features", "--features", &f, "--target-dir", &td], guard)?;
    if !out.ok {
        return Ok(Err(errors_of(&out.stderr)));
    }
    match parse_digests(&out.stdout) {
        Some(d) => Ok(Ok(d)),
        None => Ok(Err(format!("probe did not finish: {}", tail(&out.stdout, 4)))),
    }
}

/// Transcript digests per KEM under the full feature set, guard off (computed once per run)
fn reference_digests(lane: &Lane) -> Result<BTreeMap<String, String>, String> {
    static R: OnceLock<Mutex<Option<Result<BTreeMap<String, String>, String>>>> = OnceLock::new();
    let m = R.get_or_init(|| Mutex::new(None));
    let mut g = m.lock().unwrap();
    if g.is_none() {
        let r = match run_inplace(lane, &FEATURES, false) {
            Ok(Ok(d)) if d.len() == 4 => Ok(d),
            Ok(Ok(d)) => Err(format!("full-feature probe printed {} KEM digests", d.len())),
            Ok(Err(e)) => Err(format!("full-feature in-place probe does not build/run: {}", e)),
            Err(e) => Err(e),
        };
        *g = Some(r);
    }
    g.clone().unwrap()
}

fn check_subset(mask: u8, obs: &mut Obs) -> Verdict {
    let feats = features_of(mask);
    let fstr = feats.join(" ");
    let name = if feats.is_empty() { "(none)".to_string() } else { feats.join("+") };
    obs.label(format!("kems:{}", feats.iter().filter(|f| KEMS.contains(f)).count()));
    let default = mask == 0b001101; // alloc + x25519 + p256
    obs.nontrivial = !default;
    let lane = Lane::take();
    let t = tree();
    let infra = |e: String| Verdict::skip(format!("infra:{}", e.lines().next().unwrap_or("")));
    // (1) the library compiles
    obs.inner_checks += 1;
    match cargo(&t, &["check", "--offline", "--quiet", "--lib", "--no-default-features", "--features", &fstr, "--target-dir", &lane.dir("repo")], false) {
        Err(e) => return infra(e),
        Ok(o) if !o.ok => return Verdict::fail("C17/lib-does-not-compile", format!("features [{}]: cargo check --lib fails:\n{}", name, errors_of(&o.stderr))),
        Ok(_) => {}
    }
    // (2) in-place interfaces present for every enabled KEM, same outputs as under the full feature set
    let reference = match reference_digests(&lane) {
        Ok(r) => r,
        Err(e) => {
            // the full-feature probe failing to build is itself a finding about the tree when the
            // tree's full-feature library compiles; report it once, on the full-feature subset
            if mask == 0b111111 {
                return Verdict::fail("C17/in-place-api-missing", format!("features [{}]: the in-place probe does not build or run: {}", name, e));
            }
            return Verdict::skip(format!("no full-feature reference: {}", e.lines().next().unwrap_or("")));
        }
    };
    obs.inner_checks += 1;
    match run_inplace(&lane, &feats, false) {
        Err(e) => return infra(e),
        Ok(Err(e)) => return Verdict::fail("C17/in-place-api-missing", format!("features [{}]: a program using only the in-place interfaces of the enabled KEMs does not build or run:\n{}", name, e)),
        Ok(Ok(d)) => {
            for k in KEMS {
                let enabled = feats.contains(&k);
                match (enabled, d.get(k)) {
                    (true, Some(v)) => {
                        obs.inner_checks += 1;
                        if Some(v) != reference.get(k) {
                            return Verdict::fail("C17/outputs-differ-from-full-feature-set", format!("features [{}]: KEM {} transcript digest {} differs from {} under the full feature set", name, k, v, reference.get(k).cloned().unwrap_or_default()));
                        }
                    }
                    (true, None) => return Verdict::fail("C17/enabled-kem-missing", format!("features [{}]: KEM {} is enabled but produced no transcript", name, k)),
                    (false, Some(_)) => return Verdict::fail("C17/disabled-kem-present", format!("features [{}]: KEM {} is not enabled but is usable", name, k)),
                    (false, None) => {}
                }
            }
        }
    }
    // (3) allocating interfaces exactly when alloc or std is enabled
    let want_alloc = mask & 0b11 != 0;
    obs.inner_checks += 1;
    match cargo(&probe("alloc").to_string_lossy(), &["check", "--offline", "--quiet", "--no-default-features", "--features", &fstr, "--target-dir", &lane.dir("alloc")], false) {
        Err(e) => return infra(e),
        Ok(o) => {
            if o.ok != want_alloc {
                return Verdict::fail(
                    if want_alloc { "C17/alloc-api-missing" } else { "C17/alloc-api-present-without-alloc" },
                    format!("features [{}]: a program using seal/open/single_shot_seal/single_shot_open {} but alloc-or-std is {}:\n{}", name, if o.ok { "compiles" } else { "does not compile" }, want_alloc, errors_of(&o.stderr)),
                );
            }
        }
    }
    // (4) the crate's own self-consistency tests for the enabled KEMs
    obs.inner_checks += 1;
    match cargo(&t, &["test", "--offline", "--quiet", "--lib", "--no-default-features", "--features", &fstr, "--target-dir", &lane.dir("repo"), "--", "--skip", "kat_test"], false) {
        Err(e) => return infra(e),
        Ok(o) if !o.ok => return Verdict::fail("C17/unit-tests-fail", format!("features [{}]: cargo test --lib fails:\n{}\n{}", name, tail(&o.stdout, 12), errors_of(&o.stderr))),
        Ok(_) => {}
    }
    Verdict::Pass
}

fn check_guard(obs: &mut Obs) -> Verdict {
    obs.nontrivial = true;
    obs.label("guard-on-off");
    let lane = Lane::take();
    let t = tree();
    let infra = |e: String| Verdict::skip(format!("infra:{}", e.lines().next().unwrap_or("")));
    let reference = match reference_digests(&lane) {
        Ok(r) => r,
        Err(e) => return Verdict::skip(format!("no full-feature reference: {}", e.lines().next().unwrap_or(""))),
    };
    // guard on: same transcript
    obs.inner_checks += 1;
    match run_inplace(&lane, &FEATURES, true) {
        Err(e) => return infra(e),
        Ok(Err(e)) => return Verdict::fail("C17/guard-on-does-not-build", format!("with --cfg hpke_verif the in-place probe does not build or run:\n{}", e)),
        Ok(Ok(d)) => {
            if d != reference {
                return Verdict::fail("C17/guard-changes-outputs", format!("transcript digests with the guard on {:?} differ from guard off {:?}", d, reference));
            }
        }
    }
    // the hook API is exposed only with the guard on
    obs.inner_checks += 2;
    match cargo(&probe("hookuse").to_string_lossy(), &["check", "--offline", "--quiet", "--target-dir", &lane.dir("hook_off")], false) {
        Err(e) => return infra(e),
        Ok(o) if o.ok => return Verdict::fail("C17/hook-api-visible-with-guard-off", "a program calling verif_set_seq compiles although hpke was built without --cfg hpke_verif".to_string()),
        Ok(o) => {
            if !o.stderr.contains("verif_set_seq") {
                return Verdict::skip(format!("infra:hook probe failed for another reason: {}", errors_of(&o.stderr)));
            }
        }
    }
    match cargo(&probe("hookuse").to_string_lossy(), &["check", "--offline", "--quiet", "--target-dir", &lane.dir("hook_on")], true) {
        Err(e) => return infra(e),
        Ok(o) if !o.ok => return Verdict::fail("C17/hook-api-missing-with-guard-on", format!("a program calling verif_set_seq does not compile with --cfg hpke_verif:\n{}", errors_of(&o.stderr))),
        Ok(_) => {}
    }
    // the repository's baseline with the guard off (default features, all targets of the workspace)
    obs.inner_checks += 1;
    match cargo(&t, &["test", "--offline", "--quiet", "--workspace", "--no-fail-fast", "--target-dir", &lane.dir("repo")], false) {
        Err(e) => return infra(e),
        Ok(o) if !o.ok => return Verdict::fail("C17/baseline-fails-with-guard-off", format!("cargo test --workspace (guard off, default features) fails:\n{}\n{}", tail(&o.stdout, 15), errors_of(&o.stderr))),
        Ok(_) => {}
    }
    // examples and the benchmark target under their required features
    obs.inner_checks += 2;
    match cargo(&t, &["build", "--offline", "--quiet", "--examples", "--features", "x25519 p256 p384 p521", "--target-dir", &lane.dir("repo")], false) {
        Err(e) => return infra(e),
        Ok(o) if !o.ok => return Verdict::fail("C17/examples-do-not-build", format!("cargo build --examples fails:\n{}", errors_of(&o.stderr))),
        Ok(_) => {}
    }
    match cargo(&t, &["build", "--offline", "--quiet", "--benches", "--features", "x25519 p256 p384 p521", "--target-dir", &lane.dir("repo")], false) {
        Err(e) => return infra(e),
        Ok(o) if !o.ok => return Verdict::fail("C17/bench-does-not-build", format!("cargo build --benches fails:\n{}", errors_of(&o.stderr))),
        Ok(_) => {}
    }
    Verdict::Pass
}

/// A strength-2 covering set of subsets for the quick tier (every pair of features appears both
/// together and apart), plus the structurally important ones
fn quick_masks(seed: u64) -> Vec<u8> {
    let mut v: Vec<u8> = vec![
        0b000000, // nothing
        0b000001, 0b000010, 0b000100, 0b001000, 0b010000, 0b100000, // singletons
        0b001101, // default
        0b111111, // everything
        0b111110, // all without alloc (std only)
        0b111101, // all without std
        0b111100, // all KEMs, no alloc/std
        0b000110, // std + x25519
        0b001010, 0b010010, 0b100010, // std + each NIST KEM
        0b011001, // alloc + p256 + p384
        0b100100, // x25519 + p521, no alloc
    ];
    // VERIF_SEED-chosen extras
    let mut s = seed;
    while v.len() < 22 {
        s = mix(s);
        let m = (s % 64) as u8;
        if !v.contains(&m) {
            v.push(m);
        }
    }
    v
}

impl Property for P {
    type Case = Case;
    fn id(&self) -> &'static str {
        "C17"
    }
    fn rule(&self) -> String {
        "Enumerated: subsets of {alloc, std, x25519, p256, p384, p521} (quick: a fixed strength-2 covering set of 18 subsets + 4 chosen by VERIF_SEED; thorough: all 64) and one guard on/off case. \
         Oracle per subset, driving cargo in 5 parallel lanes: (1) cargo check --lib succeeds; (2) a probe using only the in-place API of each enabled KEM builds, runs a scripted session per KEM x KDF x AEAD x mode (followed, on the same thread, by a sender presenting the same identity public key with a different private key and by the same session once more) and prints a transcript digest equal to the same KEM's digest under the full feature set (and disabled KEMs are absent); (3) a probe naming seal/open/single_shot_seal/single_shot_open compiles iff alloc or std; (4) cargo test --lib -- --skip kat_test passes. Guard case: guard-on digests equal guard-off; a program calling verif_set_seq compiles only with the guard on; the 35-test baseline passes with the guard off; examples and benchmark targets build. \
         Non-trivial: every subset other than the default, and the guard case; distinct by subset."
            .into()
    }
    fn assumptions(&self) -> Vec<String> {
        vec![
            "kat_test is skipped: its vector file is empty in this tree (listed in /root/.vp/EMPTIED_FILES.txt), so it fails for a reason unrelated to features".into(),
            "one toolchain and one platform; MSRV is not explored".into(),
            "cargo failures with an environmental cause (disk, lock, missing package) are reported as exit 2, not as violations".into(),
        ]
    }
    fn strategy(&self, _tier: Tier) -> BoxedStrategy<Case> {
        (0u8..64).prop_map(|mask| Case::Subset { mask }).boxed()
    }
    fn cases(&self, _tier: Tier) -> u32 {
        0
    }
    fn sweeps(&self, tier: Tier) -> Vec<(String, Vec<Case>)> {
        let seed = std::env::var("VERIF_SEED").ok().and_then(|s| s.parse().ok()).unwrap_or(1u64);
        let masks: Vec<u8> = match tier {
            Tier::Quick => quick_masks(seed),
            Tier::Thorough => (0..64).collect(),
        };
        // the full feature set first: it produces the reference digests everybody else compares with
        let mut cases = vec![Case::Subset { mask: 0b111111 }];
        cases.extend(masks.into_iter().filter(|m| *m != 0b111111).map(|mask| Case::Subset { mask }));
        cases.push(Case::Guard);
        let name = match tier {
            Tier::Quick => "feature_subsets_covering_set",
            Tier::Thorough => "all_64_feature_subsets",
        };
        vec![(name.into(), cases)]
    }
    fn check(&self, case: &Case, obs: &mut Obs) -> Verdict {
        match case {
            Case::Subset { mask } => {
                obs.label(format!("subset:[{}]", features_of(*mask).join(" ")));
                check_subset(*mask & 63, obs)
            }
            Case::Guard => check_guard(obs),
        }
    }
    fn worker_count(&self) -> usize {
        LANES
    }
    fn exhaustive(&self, tier: Tier) -> bool {
        tier == Tier::Thorough
    }
}
