//! C10 - X25519: an all-zero Diffie-Hellman result aborts setup; keys that are not of small order
//! are never rejected. The zero test is decided by the harness's own Montgomery ladder.

use crate::corpus;
use crate::engine::{pick_index, Obs, Property, Tier, Verdict};
use crate::gen::{self, Session};
use crate::refmodel::hpke_ref::{self as r, AeadId, KdfId, KemId, Suite};
use crate::suite::{self, Fail, ScriptRng};
use crate::util::{hex, Bytes};
use hpke::HpkeError;
use proptest::prelude::*;
use serde::{Deserialize, Serialize};

#[derive(Clone, Copy, Debug, PartialEq, Eq, Serialize, Deserialize)]
pub enum Role {
    /// u is the recipient public key handed to the sender
    RecipientAtSender,
    /// u is the encapsulated key handed to the receiver
    EncAtReceiver,
    /// u is the sender identity key the receiver expects (Auth modes)
    SenderIdAtReceiver,
}

#[derive(Clone, Copy, Debug, PartialEq, Eq, Serialize, Deserialize)]
pub enum Api {
    Setup,
    Kem,
    SingleShot,
}

#[derive(Clone, Debug, Serialize, Deserialize)]
pub struct Case {
    pub sess: Session,
    pub role: Role,
    pub api: Api,
    pub how: String,
    pub u: Bytes,
    /// replaces the private key the role pairs `u` with (the recipient's; for RecipientAtSender in an
    /// Auth mode the sender identity key), the matching public key is recomputed
    #[serde(default)]
    pub sk_override: Option<Bytes>,
}

pub struct P;

fn dh_zero(k: &[u8], u: &[u8]) -> bool {
    r::x25519().x25519(k, u) == [0u8; 32]
}

fn check(case: &Case, obs: &mut Obs) -> Verdict {
    let sess = &case.sess;
    if sess.suite.kem != KemId::X25519 || case.u.len() != 32 {
        return Verdict::skip("not an X25519 case");
    }
    let d = suite::get(sess.suite);
    let mut keys = sess.keys();
    let u = &case.u.0;
    let auth = sess.mode & 2 != 0;
    if let Some(sk) = &case.sk_override {
        if sk.len() == 32 {
            let pk = r::x25519().base(sk).to_vec();
            if case.role == Role::RecipientAtSender {
                keys.sk_s = sk.0.clone();
                keys.pk_s = pk;
            } else {
                keys.sk_r = sk.0.clone();
                keys.pk_r = pk;
            }
            obs.label("private-key:overridden");
        }
    }
    obs.label(format!("role:{:?}", case.role));
    obs.label(format!("api:{:?}", case.api));
    obs.label(format!("mode:{}", sess.mode));
    obs.label(format!("how:{}", case.how.split(':').next().unwrap_or("")));
    let sealing = sess.suite.aead.sealing();
    let api = if case.api == Api::SingleShot && !sealing { Api::Setup } else { case.api };
    obs.nontrivial = !case.how.starts_with("random");
    obs.inner_checks += 1;
    match case.role {
        Role::RecipientAtSender => {
            let sk_e = r::derive_key_pair(KemId::X25519, &sess.ikm_e()).0;
            let zero = dh_zero(&sk_e, u) || (auth && dh_zero(&keys.sk_s, u));
            obs.label(if zero { "oracle:zero-dh" } else { "oracle:non-zero-dh" });
            let ms = sess.mode_s(&keys);
            let mut rng = ScriptRng::new(&sess.stream);
            let res: Result<(), Fail> = match api {
                Api::Setup => d.setup_sender(&ms, u, &sess.info, &mut rng).map(|_| ()),
                Api::Kem => {
                    let pair = if auth { Some((&keys.sk_s[..], &keys.pk_s[..])) } else { None };
                    d.encap(u, pair, &mut rng).map(|_| ())
                }
                Api::SingleShot => d.single_shot_seal(&ms, u, &sess.info, b"pt", b"aad", &mut rng).map(|_| ()),
            };
            judge(case, zero, res, HpkeError::EncapError, "sender")
        }
        Role::EncAtReceiver => {
            let zero = dh_zero(&keys.sk_r, u);
            obs.label(if zero { "oracle:zero-dh" } else { "oracle:non-zero-dh" });
            let mr = sess.mode_r(&keys);
            let res: Result<(), Fail> = match api {
                Api::Setup => d.setup_receiver(&mr, &keys.sk_r, u, &sess.info).map(|_| ()),
                Api::Kem => d.decap(&keys.sk_r, if auth { Some(&keys.pk_s[..]) } else { None }, u).map(|_| ()),
                Api::SingleShot => match d.single_shot_open(&mr, &keys.sk_r, u, &sess.info, &[0u8; 40], b"") {
                    // a context was built and the (garbage) ciphertext rejected: setup itself succeeded
                    Err(Fail::Hpke(HpkeError::OpenError)) => Ok(()),
                    other => other.map(|_| ()),
                },
            };
            judge(case, zero, res, HpkeError::DecapError, "receiver")
        }
        Role::SenderIdAtReceiver => {
            if !auth {
                return Verdict::skip("sender identity key outside an Auth mode");
            }
            // an honest encapsulation from some sender; the receiver is told to expect pkS = u
            let mut rng = ScriptRng::new(&sess.stream);
            let enc = match d.encap(&keys.pk_r, None, &mut rng) {
                Ok((_, e)) => e,
                Err(f) => return Verdict::skip(format!("construction_failed(encap:{:?})", f)),
            };
            let zero = dh_zero(&keys.sk_r, u) || dh_zero(&keys.sk_r, &enc);
            obs.label(if zero { "oracle:zero-dh" } else { "oracle:non-zero-dh" });
            let mut mr = sess.mode_r(&keys);
            mr.pk_s = Bytes(u.clone());
            let res: Result<(), Fail> = match api {
                Api::Setup => d.setup_receiver(&mr, &keys.sk_r, &enc, &sess.info).map(|_| ()),
                Api::Kem => d.decap(&keys.sk_r, Some(u), &enc).map(|_| ()),
                Api::SingleShot => match d.single_shot_open(&mr, &keys.sk_r, &enc, &sess.info, &[0u8; 40], b"") {
                    Err(Fail::Hpke(HpkeError::OpenError)) => Ok(()),
                    other => other.map(|_| ()),
                },
            };
            judge(case, zero, res, HpkeError::DecapError, "receiver")
        }
    }
}

fn judge(case: &Case, zero: bool, res: Result<(), Fail>, want_err: HpkeError, side: &str) -> Verdict {
    let what = format!("{:?} via {:?}, mode {}, {} (u = {}, {})", case.role, case.api, case.sess.mode, case.sess.suite.label(), hex(&case.u), case.how);
    let cls = format!("{:?}/{:?}", case.role, case.api);
    match (zero, res) {
        (true, Err(Fail::Hpke(e))) if e == want_err => Verdict::Pass,
        (true, Ok(())) => Verdict::fail(format!("C10/{}/zero-dh-accepted", cls), format!("{}: the Diffie-Hellman result is all-zero but the {} obtained a context / shared secret", what, side)),
        (true, Err(f)) => Verdict::fail(format!("C10/{}/zero-dh-error-kind", cls), format!("{}: an all-zero Diffie-Hellman result was reported as {:?}, expected {:?}", what, f, want_err)),
        (false, Ok(())) => Verdict::Pass,
        (false, Err(f)) => Verdict::fail(format!("C10/{}/rejected-good-key", cls), format!("{}: the key is not of small order (non-zero Diffie-Hellman result) but setup failed with {:?}", what, f)),
    }
}

/// A public key constructed so that the Diffie-Hellman result of the private key this case's role
/// pairs it with has a degenerate *shape* without being zero: one all-zero 64-bit limb, an all-zero
/// half, a single non-zero byte. Chance never produces these (2^-64 and rarer); an all-zero test that
/// looks at part of the result, or combines partial tests wrongly, refuses them. `use_identity`
/// targets DH(skS, pkR) on the sender side of an Auth mode instead of the ephemeral DH.
fn patterned_dh_key(sess: &Session, role: Role, use_identity: bool, pattern: u8, salt: u64) -> Option<(String, Vec<u8>)> {
    let keys = sess.keys();
    let sk: Vec<u8> = match role {
        Role::RecipientAtSender if use_identity => keys.sk_s.clone(),
        Role::RecipientAtSender => r::derive_key_pair(KemId::X25519, &sess.ikm_e()).0,
        _ => keys.sk_r.clone(),
    };
    if sk.len() != 32 {
        return None;
    }
    let name = match pattern % 9 {
        0..=3 => format!("dh-result-limb{}-zero", pattern % 9),
        4 => "dh-result-low-half-zero".to_string(),
        5 => "dh-result-high-half-zero".to_string(),
        6 => "dh-result-single-low-byte".to_string(),
        7 => "dh-result-single-high-byte".to_string(),
        _ => "dh-result-first-and-last-limb-zero".to_string(),
    };
    for ctr in 0..400u64 {
        let mut rbytes = [0u8; 32];
        rbytes.copy_from_slice(&gen::fill(32, 9, salt.wrapping_mul(0x9e37_79b9).wrapping_add(ctr)));
        rbytes[31] &= 0x7f;
        match pattern % 9 {
            j @ 0..=3 => rbytes[8 * j as usize..8 * j as usize + 8].fill(0),
            4 => rbytes[..16].fill(0),
            5 => rbytes[16..].fill(0),
            6 => {
                let b = rbytes[0] | 2;
                rbytes.fill(0);
                rbytes[0] = b;
            }
            7 => {
                let b = (rbytes[30] | 1) & 0x7f;
                rbytes.fill(0);
                rbytes[31] = b;
            }
            _ => {
                rbytes[..8].fill(0);
                rbytes[24..].fill(0);
            }
        }
        if let Some(pk) = r::x25519().dh_preimage(&sk, &rbytes) {
            return Some((name, pk.to_vec()));
        }
    }
    None
}

/// Near misses of the small-order encodings and other negatives
fn negatives(seed: u64, idx: u16, bit: u16) -> (String, Vec<u8>) {
    let small = corpus::small_order_14().unwrap_or_default();
    let choice = seed % 5;
    match choice {
        0 => ("random".to_string(), gen::fill(32, 9, seed)),
        1 if !small.is_empty() => {
            let mut u = small[pick_index(idx, small.len())].to_vec();
            let b = pick_index(bit, 255);
            u[b / 8] ^= 1 << (b % 8);
            ("small-order-with-one-bit-flipped".to_string(), u)
        }
        2 if !small.is_empty() => {
            let mut u = small[pick_index(idx, small.len())].to_vec();
            // +2 on the low byte region without wrapping into another small-order value
            u[1] = u[1].wrapping_add(1 + (bit % 200) as u8);
            ("small-order-plus-offset".to_string(), u)
        }
        3 => {
            // p + k for k in 2..=18 (non-canonical encodings of 2..18), bit 255 clear or set
            let k = 2 + (idx % 17) as u8;
            let mut u = [0xffu8; 32];
            u[0] = 0xed_u8.wrapping_add(k);
            u[31] = if bit % 2 == 0 { 0x7f } else { 0xff };
            // 0xed + k overflows the low byte for k >= 19 only; k <= 18 keeps it <= 0xff
            ("p-plus-small".to_string(), u.to_vec())
        }
        _ => {
            let mut u = gen::fill(32, 9, seed);
            u[31] |= 0x80;
            ("random-with-bit-255".to_string(), u)
        }
    }
}

impl Property for P {
    type Case = Case;
    fn id(&self) -> &'static str {
        "C10"
    }
    fn rule(&self) -> String {
        "Swept exhaustively: the 14 small-order encodings (u in {0,1,p-1,p,p+1, two order-8 values} x bit 255) x role {recipient key at sender, encapsulated key at receiver, sender identity key at receiver} x 4 modes x 3 KDFs x {sealing, export-only} x {setup, Kem::encap/decap, single-shot}, against 2 private-key sets. \
         Swept, decided by the arithmetic oracle: v + k*p (k = 0..3 while it fits 256 bits) and its neighbours (+-1, +-2, +-19) for the seven small-order u values v - the entries of low-order lists written for full 256-bit reduction, some of which are ordinary keys under RFC 7748 decoding - in 3 roles x 3 APIs, and all 256 single-bit neighbours of the seven encodings in 3 roles. \
         Swept and generated, constructed with the harness's own curve arithmetic: public keys P = [clamp(sk)^-1 mod q]R whose DH result R with the private key of the role (ephemeral, recipient, or the sender identity key in Auth modes) is non-zero but has an all-zero 64-bit limb, an all-zero half or a single non-zero byte (curve and twist); these must be accepted. \
         Swept: the two clamped private scalars congruent to -1 mod l and +1 mod l' (DH result = the peer's own u-coordinate) as recipient key and as Auth sender identity key, against an honest key, the base point and a twist point. \
         Generated negatives: random 32-byte strings (with and without bit 255), small-order encodings with one bit flipped or an offset added, p+2..p+18, and keys related to the session (the expected sender key, the recipient's own key, the sender's ephemeral key presented in each role). \
         Oracle: the harness's own RFC 7748 ladder decides whether any DH in the operation is zero: zero => sender entry points Err(EncapError), receiver ones Err(DecapError), nothing produced; non-zero => setup succeeds (never rejected). \
         Non-trivial: small-order positives and near-miss negatives (everything except plain random strings)."
            .into()
    }
    fn assumptions(&self) -> Vec<String> {
        vec!["the ladder is self-checked against RFC 7748 5.2/6.1 at start-up".into(), "the sender-side identity DH dh(skS, pkR) can only be zero when the ephemeral DH already is; it has no separately reachable input".into()]
    }
    fn prelude(&self, _tier: Tier) -> Result<Vec<String>, String> {
        crate::refmodel::selfcheck::arithmetic_selfcheck().map(|_| vec![])
    }
    fn strategy(&self, _tier: Tier) -> BoxedStrategy<Case> {
        let role = proptest::sample::select(vec![Role::RecipientAtSender, Role::EncAtReceiver, Role::SenderIdAtReceiver]);
        let api = proptest::sample::select(vec![Api::Setup, Api::Kem, Api::SingleShot]);
        (gen::session_any(), role, api, any::<u64>(), any::<u16>(), any::<u16>())
            .prop_map(|(mut sess, role, api, seed, idx, bit)| {
                sess.suite.kem = KemId::X25519;
                if role == Role::SenderIdAtReceiver {
                    sess.mode |= 2;
                }
                let (mut how, mut u) = negatives(seed, idx, bit);
                // values related to the session's own keys: the expected sender key, the recipient's
                // own key, the sender's actual ephemeral key - none is of small order, none may be refused
                match seed % 23 {
                    0 | 1 => {
                        how = "related:equals-sender-identity-key".into();
                        u = gen::ref_keypair(KemId::X25519, &sess.ikm_s).1;
                        sess.mode |= 2;
                    }
                    2 => {
                        how = "related:equals-recipient-key".into();
                        u = gen::ref_keypair(KemId::X25519, &sess.ikm_r).1;
                    }
                    3 => {
                        how = "related:equals-ephemeral-key".into();
                        u = gen::ref_keypair(KemId::X25519, &sess.ikm_e()).1;
                    }
                    4..=6 => {
                        let ident = role == Role::RecipientAtSender && sess.mode & 2 != 0 && bit % 2 == 0;
                        if let Some((name, pk)) = patterned_dh_key(&sess, role, ident, (idx % 9) as u8, seed) {
                            how = format!("constructed:{}", name);
                            u = pk;
                        }
                    }
                    _ => {}
                }
                Case { sess, role, api, how, u: Bytes(u), sk_override: None }
            })
            .boxed()
    }
    fn cases(&self, tier: Tier) -> u32 {
        tier.pick(15000, 150000)
    }
    fn sweeps(&self, _tier: Tier) -> Vec<(String, Vec<Case>)> {
        let small = corpus::small_order_14().unwrap_or_default();
        let mut v = Vec::new();
        for (i, u) in small.iter().enumerate() {
            for role in [Role::RecipientAtSender, Role::EncAtReceiver, Role::SenderIdAtReceiver] {
                for mode in 0..4u8 {
                    if role == Role::SenderIdAtReceiver && mode & 2 == 0 {
                        continue;
                    }
                    for kdf in KdfId::ALL {
                        for aead in [AeadId::ChaCha, AeadId::Aes128, AeadId::Export] {
                            for api in [Api::Setup, Api::Kem, Api::SingleShot] {
                                for salt in [10u64, 11] {
                                    let s = Suite { kem: KemId::X25519, kdf, aead };
                                    v.push(Case { sess: gen::cell_session(s, mode, salt), role, api, how: format!("small-order:{}", i), u: Bytes(u.to_vec()), sk_override: None });
                                }
                            }
                        }
                    }
                }
            }
        }
        // fixed near misses
        let mut near = Vec::new();
        for (name, u0) in [("u=2", 2u8), ("u=9", 9u8), ("u=3", 3u8)] {
            let mut u = [0u8; 32];
            u[0] = u0;
            for role in [Role::RecipientAtSender, Role::EncAtReceiver, Role::SenderIdAtReceiver] {
                for mode in 0..4u8 {
                    let s = Suite { kem: KemId::X25519, kdf: KdfId::Sha256, aead: AeadId::ChaCha };
                    near.push(Case { sess: gen::cell_session(s, if role == Role::SenderIdAtReceiver { mode | 2 } else { mode }, 12), role, api: Api::Setup, how: format!("near-miss:{}", name), u: Bytes(u.to_vec()), sk_override: None });
                }
            }
        }
        for role in [Role::RecipientAtSender, Role::EncAtReceiver, Role::SenderIdAtReceiver] {
            for mode in [2u8, 3u8, 0u8] {
                for (name, which) in [("related:equals-sender-identity-key", 0u8), ("related:equals-recipient-key", 1), ("related:equals-ephemeral-key", 2)] {
                    let s = Suite { kem: KemId::X25519, kdf: KdfId::Sha256, aead: AeadId::ChaCha };
                    let sess = gen::cell_session(s, if role == Role::SenderIdAtReceiver { mode | 2 } else { mode }, 14);
                    let u = match which {
                        0 => gen::ref_keypair(KemId::X25519, &sess.ikm_s).1,
                        1 => gen::ref_keypair(KemId::X25519, &sess.ikm_r).1,
                        _ => gen::ref_keypair(KemId::X25519, &sess.ikm_e()).1,
                    };
                    for api in [Api::Setup, Api::Kem] {
                        near.push(Case { sess: sess.clone(), role, api, how: name.into(), u: Bytes(u.clone()), sk_override: None });
                    }
                }
            }
        }
        // integer aliases: a list of "low-order encodings" written for implementations that reduce
        // the whole 256-bit string mod p contains v + k*p for k = 0, 1, 2; RFC 7748 drops bit 255
        // first, so only some of them decode to a small-order u. The arithmetic oracle decides each
        // (v + k*p and its neighbours, v over the seven small-order u values), in every role.
        let mut aliases = Vec::new();
        {
            let p_le = {
                let mut p = [0xffu8; 32];
                p[0] = 0xed;
                p[31] = 0x7f;
                p
            };
            let add = |a: &[u8; 32], b: &[u8; 32]| -> Option<[u8; 32]> {
                let mut out = [0u8; 32];
                let mut c = 0u16;
                for i in 0..32 {
                    let t = a[i] as u16 + b[i] as u16 + c;
                    out[i] = t as u8;
                    c = t >> 8;
                }
                if c == 0 { Some(out) } else { None }
            };
            let small7: Vec<[u8; 32]> = small.iter().filter(|u| u[31] & 0x80 == 0).copied().collect();
            let mut seen = std::collections::BTreeSet::new();
            for v in &small7 {
                let mut cur = Some(*v);
                for k in 0..4u8 {
                    let Some(x) = cur else { break };
                    for delta in [0i8, 1, -1, 2, -2, 19, -19] {
                        let mut d = [0u8; 32];
                        d[0] = delta.unsigned_abs();
                        let y = if delta >= 0 {
                            add(&x, &d)
                        } else {
                            // x - |delta| without borrow handling beyond the low bytes is enough here: skip on underflow
                            let mut out = x;
                            let mut borrow = delta.unsigned_abs() as i16;
                            for b in out.iter_mut() {
                                let t = *b as i16 - borrow;
                                if t < 0 { *b = (t + 256) as u8; borrow = 1 } else { *b = t as u8; borrow = 0; break }
                            }
                            if borrow == 0 { Some(out) } else { None }
                        };
                        if let Some(y) = y {
                            if seen.insert(y) {
                                for role in [Role::RecipientAtSender, Role::EncAtReceiver, Role::SenderIdAtReceiver] {
                                    for api in [Api::Setup, Api::Kem, Api::SingleShot] {
                                        let s = Suite { kem: KemId::X25519, kdf: KdfId::Sha256, aead: AeadId::ChaCha };
                                        let mode = if role == Role::SenderIdAtReceiver { 2 } else { 0 };
                                        aliases.push(Case { sess: gen::cell_session(s, mode, 15), role, api, how: format!("alias:v+{}p{:+}", k, delta), u: Bytes(y.to_vec()), sk_override: None });
                                    }
                                }
                            }
                        }
                    }
                    cur = add(&x, &p_le);
                }
            }
            // every single-bit neighbour of the seven small-order encodings (bit 255 included: the oracle
            // knows those twins are small-order again), as encapsulated key and as sender identity key
            for v in &small7 {
                for bit in 0..256usize {
                    let mut y = *v;
                    y[bit / 8] ^= 1 << (bit % 8);
                    for role in [Role::EncAtReceiver, Role::SenderIdAtReceiver, Role::RecipientAtSender] {
                        let s = Suite { kem: KemId::X25519, kdf: KdfId::Sha256, aead: AeadId::ChaCha };
                        let mode = if role == Role::SenderIdAtReceiver { 2 } else { 0 };
                        aliases.push(Case { sess: gen::cell_session(s, mode, 16), role, api: Api::Kem, how: format!("bit-neighbour:{}", bit), u: Bytes(y.to_vec()), sk_override: None });
                    }
                }
            }
        }
        // keys whose DH result (with the private key the role pairs them with) is non-zero but has
        // an all-zero limb / half / all but one byte: every role, Auth-mode identity DH included
        let mut patterned = Vec::new();
        for pattern in 0..9u8 {
            for (role, mode, ident) in [
                (Role::RecipientAtSender, 0u8, false),
                (Role::RecipientAtSender, 2, false),
                (Role::RecipientAtSender, 3, true),
                (Role::EncAtReceiver, 0, false),
                (Role::EncAtReceiver, 3, false),
                (Role::SenderIdAtReceiver, 2, false),
                (Role::SenderIdAtReceiver, 3, false),
            ] {
                let s = Suite { kem: KemId::X25519, kdf: KdfId::Sha256, aead: AeadId::ChaCha };
                let sess = gen::cell_session(s, mode, 17);
                if let Some((name, pk)) = patterned_dh_key(&sess, role, ident, pattern, 1000 + pattern as u64) {
                    for api in [Api::Setup, Api::Kem, Api::SingleShot] {
                        patterned.push(Case { sess: sess.clone(), role, api, how: format!("constructed:{}", name), u: Bytes(pk.clone()), sk_override: None });
                    }
                }
            }
        }
        // private scalars that act as -1 on the curve's prime-order subgroup (5l - 1) resp. as +1 on the
        // twist's (3l' + 1): the DH result has the same u-coordinate as the peer's key. Nothing is zero,
        // nothing may be refused ("the result equals an input" is not a failure)
        let mut special = Vec::new();
        {
            let s = Suite { kem: KemId::X25519, kdf: KdfId::Sha256, aead: AeadId::ChaCha };
            let x = r::x25519();
            let mut four = vec![0u64; 4];
            four[0] = 4;
            let mut twist_u = None;
            for c in 0..64u64 {
                let cand = gen::fill(32, 9, 4242 + c);
                let mut cb = [0u8; 32];
                cb.copy_from_slice(&cand);
                cb[31] &= 0x7f;
                // a point of the twist's prime-order subgroup: 4 * (a point that is not on the curve)
                if x.dh_preimage(&gen::fill(32, 9, 1), &cb).is_none() {
                    if let Some(q) = x.ladder_raw(&four, &cb) {
                        let three_lt_plus_1 = crate::util::unhex("58083dd261ad91eff952322ec824c682ffffffffffffffffffffffffffffff5f");
                        if x.x25519(&three_lt_plus_1, &q) == q {
                            twist_u = Some(q.to_vec());
                            break;
                        }
                    }
                }
            }
            for (name, skhex) in [("5l-1", "a023cdd083ef5bb82f10d62e59e15a6800000000000000000000000000000050"), ("3l'+1", "58083dd261ad91eff952322ec824c682ffffffffffffffffffffffffffffff5f")] {
                let sk = Bytes(crate::util::unhex(skhex));
                for (role, mode) in [(Role::EncAtReceiver, 0u8), (Role::EncAtReceiver, 3), (Role::SenderIdAtReceiver, 2), (Role::RecipientAtSender, 2), (Role::RecipientAtSender, 3)] {
                    let sess = gen::cell_session(s, mode, 18);
                    let mut us: Vec<(String, Vec<u8>)> = vec![
                        ("peer:honest-key".into(), gen::ref_keypair(KemId::X25519, &gen::fill(32, 9, 77)).1),
                        ("peer:base-point".into(), { let mut b = vec![0u8; 32]; b[0] = 9; b }),
                    ];
                    if let Some(t) = &twist_u {
                        us.push(("peer:twist-prime-order".into(), t.clone()));
                    }
                    for (uname, u) in us {
                        for api in [Api::Setup, Api::Kem, Api::SingleShot] {
                            special.push(Case { sess: sess.clone(), role, api, how: format!("special-scalar:{}:{}", name, uname), u: Bytes(u.clone()), sk_override: Some(sk.clone()) });
                        }
                    }
                }
            }
        }
        let mut all_ff = [0xffu8; 32];
        near.push(Case { sess: gen::cell_session(Suite { kem: KemId::X25519, kdf: KdfId::Sha256, aead: AeadId::ChaCha }, 0, 13), role: Role::EncAtReceiver, api: Api::Setup, how: "near-miss:2^256-1".into(), u: Bytes(all_ff.to_vec()), sk_override: None });
        all_ff[31] = 0x7f;
        near.push(Case { sess: gen::cell_session(Suite { kem: KemId::X25519, kdf: KdfId::Sha256, aead: AeadId::ChaCha }, 0, 13), role: Role::EncAtReceiver, api: Api::Setup, how: "near-miss:2^255-1".into(), u: Bytes(all_ff.to_vec()), sk_override: None });
        vec![("small_order_14_x_roles_x_modes_x_kdf_x_aead_x_api".into(), v), ("fixed_near_misses".into(), near), ("integer_aliases_and_bit_neighbours_of_small_order_u".into(), aliases), ("constructed_keys_with_patterned_dh_results".into(), patterned), ("private_scalars_congruent_to_plus_minus_one".into(), special)]
    }
    fn check(&self, case: &Case, obs: &mut Obs) -> Verdict {
        check(case, obs)
    }
}
