//! C14 - single-shot and in-place interfaces are equivalent to the composed operations.

use super::common::*;
use crate::corpus;
use crate::engine::{catch, pick_index, Obs, Property, Tier, Verdict};
use crate::ensure;
use crate::gen::{self, Session};
use crate::refmodel::hpke_ref::{AeadId, KemId, Suite};
use crate::suite::{self, spy_clear, spy_take, DynSuite, Fail, ScriptRng, SpyRec};
use crate::util::{hex_short, Bytes};
use proptest::prelude::*;
use serde::{Deserialize, Serialize};

#[derive(Clone, Debug, PartialEq, Eq, Serialize, Deserialize)]
pub enum Fault {
    None,
    /// X25519 only: the recipient public key is the idx-th small-order encoding (sender fails)
    SmallOrderRecipient { idx: u8 },
    /// X25519 only: the encapsulated key is the idx-th small-order encoding (receiver fails)
    SmallOrderEnc { idx: u8 },
    /// one bit of the tag / body flipped
    Tamper { pos: u16 },
    /// ciphertext cut to `keep` bytes (< Nt possible)
    Short { keep: u8 },
    /// receiver uses a different info string
    WrongInfo,
    /// receiver uses different associated data
    WrongAad,
}

#[derive(Clone, Debug, Serialize, Deserialize)]
pub struct Case {
    pub sess: Session,
    pub pt: Bytes,
    pub aad: Bytes,
    /// zero, one or two faults; two faults exercise the precedence between failure paths
    pub faults: Vec<Fault>,
    /// use the recording SpyAead row (only meaningful when the suite's AEAD is ChaCha20Poly1305)
    pub spy: bool,
    /// context-level comparison of the allocating and the in-place forms at this sequence position
    /// (hook), including the calls made after the context has been exhausted
    #[serde(default)]
    pub ctx_pos: Option<u64>,
}

pub struct P;

fn row(case: &Case) -> &'static dyn DynSuite {
    if case.spy && case.sess.suite.aead == AeadId::ChaCha {
        suite::get_spy(case.sess.suite.kem, case.sess.suite.kdf)
    } else {
        suite::get(case.sess.suite)
    }
}

fn spy_view(v: Vec<SpyRec>) -> Vec<(bool, Vec<u8>, Vec<u8>, usize, bool)> {
    v.into_iter().map(|r| (r.enc, r.nonce, r.aad, r.len, r.ok)).collect()
}

/// Two sender contexts and two receiver contexts built from identical inputs and placed at the same
/// sequence position: the allocating forms on one pair, the in-place forms on the other, through a
/// short script that runs past exhaustion when the position is 2^64-1. Results must agree step by step.
fn check_ctx_forms(case: &Case, pos: u64, obs: &mut Obs) -> Verdict {
    let sess = &case.sess;
    let d = row(case);
    if !sess.suite.aead.sealing() {
        return Verdict::Pass;
    }
    let keys = sess.keys();
    let nt = sess.suite.aead.nt();
    let mk = || -> Result<(Box<dyn crate::suite::DynSender>, Box<dyn crate::suite::DynReceiver>), Verdict> {
        let (enc, mut s) = honest_sender(d, sess, &keys)?;
        let mut r = honest_receiver(d, sess, &keys, &enc)?;
        s.set_seq(pos);
        r.set_seq(pos);
        Ok((s, r))
    };
    let (mut sa, mut ra) = match mk() {
        Ok(x) => x,
        Err(v) => return v,
    };
    let (mut sb, mut rb) = match mk() {
        Ok(x) => x,
        Err(v) => return v,
    };
    obs.label("context-forms-at-position");
    let mut last_ct: Option<Vec<u8>> = None;
    for round in 0..4 {
        // seal: allocating on A, in-place on B
        let a = sa.seal(&case.pt, &case.aad);
        let mut buf = case.pt.0.clone();
        let b = sb.seal_in_place(&mut buf, &case.aad).map(|tag| {
            let mut c = buf.clone();
            c.extend_from_slice(&tag);
            c
        });
        obs.inner_checks += 2;
        ensure!(a == b, "C14/ctx/seal-forms-differ", "round {} at position {}: seal gave {:?} but seal_in_place_detached gave {:?}", round, pos, a.as_ref().map(|c| hex_short(c)), b.as_ref().map(|c| hex_short(c)));
        if b.is_err() {
            ensure!(buf == case.pt.0 || b != Err(hpke::HpkeError::MessageLimitReached), "C14/ctx/seal-in-place-buffer", "seal_in_place_detached refused with MessageLimitReached but modified the buffer");
        }
        // what is delivered: the fresh ciphertext, or (once the sender is exhausted) a replay of the last one
        let ct = match (&a, &last_ct) {
            (Ok(c), _) => c.clone(),
            (Err(_), Some(c)) => c.clone(),
            (Err(_), None) => break,
        };
        last_ct = Some(ct.clone());
        let x = ra.open(&ct, &case.aad);
        let split = ct.len() - nt;
        let mut body = ct[..split].to_vec();
        let y = rb.open_in_place(&mut body, &case.aad, &ct[split..]);
        match (&x, &y) {
            (Ok(p), Ok(())) => ensure!(p == &body, "C14/ctx/open-forms-differ", "round {} at position {}: open returned {} but open_in_place_detached left {}", round, pos, hex_short(p), hex_short(&body)),
            (Err(e1), Err(Fail::Hpke(e2))) => ensure!(e1 == e2, "C14/ctx/open-forms-differ", "round {} at position {} (+{}): open failed with {:?} but open_in_place_detached with {:?}", round, pos, round, e1, e2),
            (x, y) => return Verdict::fail("C14/ctx/open-forms-differ", format!("round {} at position {} (+{}): open gave {:?} but open_in_place_detached gave {:?} for the same ciphertext/tag split", round, pos, round, x.as_ref().map(|p| p.len()), y)),
        }
    }
    Verdict::Pass
}

fn check(case: &Case, obs: &mut Obs) -> Verdict {
    if let Some(pos) = case.ctx_pos {
        let v = check_ctx_forms(case, pos, obs);
        if v != Verdict::Pass {
            return v;
        }
    }
    let sess = &case.sess;
    let suite_ = sess.suite;
    let d = row(case);
    labels_for(sess, obs);
    if d.is_spy() {
        obs.label("spy");
    }
    for f in &case.faults {
        obs.label(format!("fault:{}", format!("{:?}", f).split([' ', '{']).next().unwrap_or("")));
    }
    if case.faults.len() >= 2 {
        obs.label("two-faults");
    }
    let has = |pred: &dyn Fn(&Fault) -> bool| case.faults.iter().any(|f| pred(f));
    let keys = sess.keys();
    let nt = suite_.aead.nt();
    let sealing = suite_.aead.sealing();
    let small = corpus::small_order_14().unwrap_or_default();
    let mut pk_r = keys.pk_r.clone();
    let x = suite_.kem == KemId::X25519 && !small.is_empty();
    // the small-order faults only exist for X25519; elsewhere they are dropped
    let faults: Vec<Fault> = case.faults.iter().filter(|f| **f != Fault::None && (x || !matches!(f, Fault::SmallOrderRecipient { .. } | Fault::SmallOrderEnc { .. }))).cloned().collect();
    for f in &faults {
        if let Fault::SmallOrderRecipient { idx } = f {
            pk_r = small[*idx as usize % small.len()].to_vec();
        }
    }
    let _ = &has;
    obs.nontrivial = !faults.is_empty() || (!sess.info.is_empty() && sess.info != case.aad);
    let ms = sess.mode_s(&keys);
    let mr = sess.mode_r(&keys);

    // ---- sender side: single-shot vs composed, identical RNG streams -----------------------------
    spy_clear();
    let mut rng_a = ScriptRng::new(&sess.stream);
    let a = catch(|| d.single_shot_seal(&ms, &pk_r, &sess.info, &case.pt, &case.aad, &mut rng_a));
    let spy_a = spy_view(spy_take());
    let mut rng_b = ScriptRng::new(&sess.stream);
    let b = catch(|| match d.setup_sender(&ms, &pk_r, &sess.info, &mut rng_b) {
        Ok((enc, mut ctx)) => ctx.seal(&case.pt, &case.aad).map(|ct| (enc, ct)).map_err(Fail::Hpke),
        Err(f) => Err(f),
    });
    let spy_b = spy_view(spy_take());
    obs.inner_checks += 3;
    if !sealing {
        // export-only: the setup half must succeed on both routes and the seal half must panic
        ensure!(a.is_err() == b.is_err(), "C14/seal/panic-mismatch", "export-only: single_shot_seal panicked={} but setup+seal panicked={}", a.is_err(), b.is_err());
        if faults.iter().any(|f| matches!(f, Fault::SmallOrderRecipient { .. })) {
            ensure!(a == b, "C14/seal/error-mismatch", "export-only with a bad recipient key: single-shot {:?} vs composed {:?}", a, b);
        }
        ensure!(rng_a.drawn() == rng_b.drawn(), "C14/seal/rng-draw-mismatch", "single_shot_seal drew {} RNG bytes, setup_sender+seal drew {}", rng_a.drawn(), rng_b.drawn());
        obs.label("export-only");
        return Verdict::Pass;
    }
    let (a, b) = match (a, b) {
        (Ok(a), Ok(b)) => (a, b),
        (a, b) => return Verdict::fail("C14/seal/panic", format!("a sealing route panicked: single-shot {:?}, composed {:?}", a.err(), b.err())),
    };
    ensure!(
        a == b,
        "C14/seal/result-mismatch",
        "single_shot_seal and setup_sender+seal disagree with identical randomness: single-shot {:?} vs composed {:?} ({} mode {})",
        a.as_ref().map(|(e, c)| (hex_short(e), hex_short(c))),
        b.as_ref().map(|(e, c)| (hex_short(e), hex_short(c))),
        suite_.label(), sess.mode
    );
    ensure!(rng_a.drawn() == rng_b.drawn(), "C14/seal/rng-draw-mismatch", "single_shot_seal drew {} RNG bytes, setup_sender+seal drew {}", rng_a.drawn(), rng_b.drawn());
    if d.is_spy() {
        ensure!(spy_a == spy_b, "C14/seal/aead-call-mismatch", "the AEAD calls (nonce, aad, len) of the two sealing routes differ: {:?} vs {:?}", spy_a, spy_b);
        if a.is_ok() {
            ensure!(spy_a.len() == 1 && spy_a[0].2 == case.aad.0 && spy_a[0].3 == case.pt.len(), "C14/seal/aead-call", "single_shot_seal made AEAD calls {:?}; expected one call with the caller's aad ({} bytes) and plaintext length {}", spy_a, case.aad.len(), case.pt.len());
        }
    }
    // in-place detached forms
    let mut buf_c = case.pt.0.clone();
    let mut rng_c = ScriptRng::new(&sess.stream);
    let c = d.single_shot_seal_in_place(&ms, &pk_r, &sess.info, &mut buf_c, &case.aad, &mut rng_c);
    let mut buf_d = case.pt.0.clone();
    let mut rng_d = ScriptRng::new(&sess.stream);
    let dres = match d.setup_sender(&ms, &pk_r, &sess.info, &mut rng_d) {
        Ok((enc, mut ctx)) => ctx.seal_in_place(&mut buf_d, &case.aad).map(|tag| (enc, tag)).map_err(Fail::Hpke),
        Err(f) => Err(f),
    };
    spy_clear();
    obs.inner_checks += 3;
    ensure!(c == dres, "C14/seal-in-place/result-mismatch", "single_shot_seal_in_place_detached and setup_sender+seal_in_place_detached disagree: {:?} vs {:?}", c.as_ref().map(|(e, t)| (hex_short(e), hex_short(t))), dres.as_ref().map(|(e, t)| (hex_short(e), hex_short(t))));
    if c.is_ok() {
        ensure!(buf_c == buf_d, "C14/seal-in-place/buffer-mismatch", "the in-place buffers of the two routes differ");
    }
    match (&a, &c) {
        (Ok((enc_a, ct)), Ok((enc_c, tag))) => {
            let mut joined = buf_c.clone();
            joined.extend_from_slice(tag);
            ensure!(enc_a == enc_c, "C14/alloc-vs-in-place/enc", "allocating and in-place single-shot seal give different encapsulated keys for identical randomness");
            ensure!(
                ct == &joined,
                "C14/alloc-vs-in-place/ciphertext",
                "seal() output {} is not the in-place ciphertext followed by the detached tag {}",
                hex_short(ct), hex_short(&joined)
            );
        }
        (Err(x), Err(y)) => ensure!(x == y, "C14/alloc-vs-in-place/error", "allocating seal failed with {:?}, in-place with {:?}", x, y),
        (x, y) => return Verdict::fail("C14/alloc-vs-in-place/error", format!("allocating single-shot seal {:?} but in-place {:?}", x.as_ref().map(|_| "Ok"), y.as_ref().map(|_| "Ok"))),
    }
    let (enc, ct) = match a {
        Ok(x) => x,
        Err(_) => {
            obs.label("sender-failure-path");
            return Verdict::Pass; // failure path compared above; nothing to open
        }
    };

    // ---- receiver side ---------------------------------------------------------------------------
    let mut enc_r = enc.clone();
    let mut ct_r = ct.clone();
    let mut info_r = sess.info.0.clone();
    let mut aad_r = case.aad.0.clone();
    for f in &faults {
        match f {
            Fault::SmallOrderEnc { idx } => enc_r = small[*idx as usize % small.len()].to_vec(),
            Fault::Tamper { pos } => {
                if !ct_r.is_empty() {
                    let i = pick_index(*pos, ct_r.len());
                    ct_r[i] ^= 1 << (pos % 8);
                }
            }
            Fault::Short { keep } => ct_r.truncate((*keep as usize) % (nt + 2).min(ct_r.len() + 1)),
            Fault::WrongInfo => info_r.push(0),
            Fault::WrongAad => aad_r.push(0),
            _ => {}
        }
    }
    let receiver_faults = faults.iter().any(|f| !matches!(f, Fault::SmallOrderRecipient { .. }));
    spy_clear();
    let e = d.single_shot_open(&mr, &keys.sk_r, &enc_r, &info_r, &ct_r, &aad_r);
    let spy_e = spy_view(spy_take());
    let f = match d.setup_receiver(&mr, &keys.sk_r, &enc_r, &info_r) {
        Ok(mut ctx) => ctx.open(&ct_r, &aad_r).map_err(Fail::Hpke),
        Err(x) => Err(x),
    };
    let spy_f = spy_view(spy_take());
    obs.inner_checks += 3;
    ensure!(
        e == f,
        "C14/open/result-mismatch",
        "single_shot_open and setup_receiver+open disagree (faults {:?}): single-shot {:?} vs composed {:?} ({} mode {})",
        faults, e.as_ref().map(|p| hex_short(p)), f.as_ref().map(|p| hex_short(p)), suite_.label(), sess.mode
    );
    if d.is_spy() {
        ensure!(spy_e == spy_f, "C14/open/aead-call-mismatch", "the AEAD calls of the two opening routes differ: {:?} vs {:?}", spy_e, spy_f);
    }
    if !receiver_faults {
        ensure!(e.as_ref() == Ok(&case.pt.0), "C14/open/honest-rejected", "the honest single-shot ciphertext did not open to the plaintext: {:?}", e.as_ref().map(|p| hex_short(p)));
    } else {
        obs.label("receiver-failure-path");
    }
    // in-place detached opening needs a full tag
    if ct_r.len() >= nt {
        let split = ct_r.len() - nt;
        let (body, tag) = ct_r.split_at(split);
        let mut buf_g = body.to_vec();
        let g = d.single_shot_open_in_place(&mr, &keys.sk_r, &enc_r, &info_r, &mut buf_g, &aad_r, tag);
        let mut buf_h = body.to_vec();
        let h = match d.setup_receiver(&mr, &keys.sk_r, &enc_r, &info_r) {
            Ok(mut ctx) => ctx.open_in_place(&mut buf_h, &aad_r, tag),
            Err(x) => Err(x),
        };
        spy_clear();
        obs.inner_checks += 3;
        ensure!(g == h, "C14/open-in-place/result-mismatch", "single_shot_open_in_place_detached {:?} vs setup_receiver+open_in_place_detached {:?} (faults {:?})", g, h, faults);
        // allocating open accepts exactly what the in-place open accepts for the same split
        match (&e, &g) {
            (Ok(p), Ok(())) => ensure!(p == &buf_g, "C14/alloc-vs-in-place/plaintext", "open() returned {} but the in-place open left {}", hex_short(p), hex_short(&buf_g)),
            (Err(x), Err(y)) => ensure!(x == y, "C14/alloc-vs-in-place/open-error", "allocating open failed with {:?}, in-place with {:?}", x, y),
            (x, y) => return Verdict::fail("C14/alloc-vs-in-place/acceptance", format!("allocating open {:?} but in-place open {:?} for the same ciphertext/tag split", x.as_ref().map(|_| "Ok"), y)),
        }
    }
    Verdict::Pass
}

impl Property for P {
    type Case = Case;
    fn id(&self) -> &'static str {
        "C14"
    }
    fn rule(&self) -> String {
        "Generated: (suite of 48 or the recording SpyAead row, mode, session inputs, RNG stream, pt, aad, 0..=2 faults from {small-order recipient key, small-order encapsulated key, tampered bit, short ciphertext (0..Nt+1 bytes), wrong info, wrong aad}; two faults exercise the precedence between failure paths). \
         Swept: 48x4 cells x {no fault, tamper, short}; all 14 small-order keys x 4 modes alone and combined with a short ciphertext. \
         Oracle: with identical RNG streams single_shot_seal == setup_sender;seal in enc, ciphertext, error and bytes drawn (likewise in-place: buffer and tag); single_shot_open[_in_place_detached] == setup_receiver;open[...] in result and error; seal(pt) == in-place body || tag; open(c||t) Ok(p) iff open_in_place(c,t) Ok leaving p — also on contexts placed at a sequence position through the hook and driven past exhaustion (30% of the cases; positions 2^64-1-d swept for every suite x mode); with SpyAead the recorded (nonce, aad, len) of both routes are identical. \
         Non-trivial: a failure path, or non-empty info != aad."
            .into()
    }
    fn assumptions(&self) -> Vec<String> {
        vec!["the composed route is the specification; both routes run in the same process with byte-identical scripted randomness".into()]
    }
    fn strategy(&self, _tier: Tier) -> BoxedStrategy<Case> {
        let fault = prop_oneof![
            4 => Just(Fault::None),
            1 => (0u8..14).prop_map(|idx| Fault::SmallOrderRecipient { idx }),
            1 => (0u8..14).prop_map(|idx| Fault::SmallOrderEnc { idx }),
            2 => any::<u16>().prop_map(|pos| Fault::Tamper { pos }),
            2 => any::<u8>().prop_map(|keep| Fault::Short { keep }),
            1 => Just(Fault::WrongInfo),
            1 => Just(Fault::WrongAad),
        ];
        let ctx_pos = proptest::option::weighted(0.3, prop_oneof![2 => (0u64..4).prop_map(|d| u64::MAX - d), 1 => gen::position()]);
        (gen::session_any(), gen::bytes(400), gen::bytes(200), proptest::collection::vec(fault, 0..=2), any::<bool>(), ctx_pos)
            .prop_map(|(mut sess, pt, aad, mut faults, spy, ctx_pos)| {
                faults.retain(|f| *f != Fault::None);
                // the small-order faults only exist for X25519: steer those cases there
                if faults.iter().any(|f| matches!(f, Fault::SmallOrderRecipient { .. } | Fault::SmallOrderEnc { .. })) {
                    sess.suite.kem = KemId::X25519;
                }
                Case { sess, pt, aad, faults, spy, ctx_pos }
            })
            .boxed()
    }
    fn cases(&self, tier: Tier) -> u32 {
        tier.pick(12000, 120000)
    }
    fn sweeps(&self, _tier: Tier) -> Vec<(String, Vec<Case>)> {
        let mut cells = Vec::new();
        for (s, m) in gen::all_cells(&Suite::all48()) {
            for (k, fault) in [Fault::None, Fault::Tamper { pos: 40000 }, Fault::Short { keep: 15 }].into_iter().enumerate() {
                cells.push(Case { sess: gen::cell_session(s, m, 14), pt: Bytes(gen::fill(33, 5, 14)), aad: Bytes(gen::fill(9, 5, 15)), faults: vec![fault], spy: k == 0 && m == 1, ctx_pos: if k == 0 { Some(u64::MAX - m as u64) } else { None } });
            }
        }
        let mut so = Vec::new();
        for idx in 0..14u8 {
            for m in 0..4u8 {
                let s = Suite { kem: KemId::X25519, kdf: crate::refmodel::hpke_ref::KdfId::Sha256, aead: AeadId::ChaCha };
                so.push(Case { sess: gen::cell_session(s, m, 17), pt: Bytes(b"pt".to_vec()), aad: Bytes(b"aad".to_vec()), faults: vec![Fault::SmallOrderRecipient { idx }], spy: false, ctx_pos: None });
                so.push(Case { sess: gen::cell_session(s, m, 17), pt: Bytes(b"pt".to_vec()), aad: Bytes(b"aad".to_vec()), faults: vec![Fault::SmallOrderEnc { idx }], spy: false, ctx_pos: None });
                for keep in [0u8, 7, 15] {
                    so.push(Case { sess: gen::cell_session(s, m, 17), pt: Bytes(b"pt".to_vec()), aad: Bytes(b"aad".to_vec()), faults: vec![Fault::SmallOrderEnc { idx }, Fault::Short { keep }], spy: false, ctx_pos: None });
                }
            }
        }
        vec![("suite_x_mode_x_fault_cells".into(), cells), ("small_order_failure_paths".into(), so)]
    }
    fn check(&self, case: &Case, obs: &mut Obs) -> Verdict {
        check(case, obs)
    }
}
