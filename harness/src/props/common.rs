//! Helpers shared by the property modules.

use crate::engine::Verdict;
use crate::gen::{Keys, Session};
use crate::suite::{self, DynReceiver, DynSender, DynSuite, Fail, ScriptRng};

pub fn construct_skip(step: &str, f: &Fail) -> Verdict {
    Verdict::skip(format!("construction_failed({}:{:?})", step, f))
}

/// Honest sender for a session (RNG = the session's stream). A failure is a construction failure:
/// the properties that own setup (C01, C02, C13) call the adapter directly instead.
pub fn honest_sender(d: &dyn DynSuite, sess: &Session, keys: &Keys) -> Result<(Vec<u8>, Box<dyn DynSender>), Verdict> {
    let mut rng = ScriptRng::new(&sess.stream);
    d.setup_sender(&sess.mode_s(keys), &keys.pk_r, &sess.info, &mut rng).map_err(|f| construct_skip("setup_sender", &f))
}

pub fn honest_receiver(d: &dyn DynSuite, sess: &Session, keys: &Keys, enc: &[u8]) -> Result<Box<dyn DynReceiver>, Verdict> {
    d.setup_receiver(&sess.mode_r(keys), &keys.sk_r, enc, &sess.info).map_err(|f| construct_skip("setup_receiver", &f))
}

pub fn labels_for(sess: &Session, obs: &mut crate::engine::Obs) {
    obs.label(format!("kem:{}", sess.suite.kem.name()));
    obs.label(format!("kdf:{:?}", sess.suite.kdf));
    obs.label(format!("aead:{}", sess.suite.aead.name()));
    obs.label(format!("mode:{}", sess.mode));
}

pub fn dsuite(sess: &Session) -> &'static dyn DynSuite {
    suite::get(sess.suite)
}

/// The standard script used to decide whether two contexts "share key material": the sender
/// seals three messages and both sides export two secrets.
pub struct Probe {
    pub cts: Vec<(Vec<u8>, Vec<u8>, Vec<u8>)>, // (ct, aad, pt)
    pub exports: Vec<(Vec<u8>, usize, Vec<u8>)>, // (ctx, len, value)
}

pub fn probe_sender(snd: &mut dyn DynSender, sealing: bool) -> Result<Probe, Verdict> {
    let mut cts = Vec::new();
    if sealing {
        for (pt, aad) in [(&b"probe message zero"[..], &b"aad-0"[..]), (&b""[..], &b""[..]), (&b"third probe message, a little longer than a block....."[..], &b"x"[..])] {
            let ct = snd.seal(pt, aad).map_err(|e| Verdict::skip(format!("construction_failed(seal:{:?})", e)))?;
            cts.push((ct, aad.to_vec(), pt.to_vec()));
        }
    }
    let mut exports = Vec::new();
    for (ctx, len) in [(&b""[..], 32usize), (&b"exporter context"[..], 16usize), (&b"k"[..], 64usize)] {
        let v = snd.export(ctx, len).map_err(|e| Verdict::skip(format!("construction_failed(export:{:?})", e)))?;
        exports.push((ctx.to_vec(), len, v));
    }
    Ok(Probe { cts, exports })
}

/// Positive control: the receiver opens all probe ciphertexts in order and exports the same values
pub fn probe_agrees(rcv: &mut dyn DynReceiver, p: &Probe) -> Result<(), String> {
    for (i, (ct, aad, pt)) in p.cts.iter().enumerate() {
        match rcv.open(ct, aad) {
            Ok(got) if &got == pt => {}
            other => return Err(format!("honest receiver did not open probe message #{}: {:?}", i, other.map(|v| v.len()))),
        }
    }
    for (ctx, len, v) in &p.exports {
        match rcv.export(ctx, *len) {
            Ok(got) if &got == v => {}
            _ => return Err(format!("honest receiver's export (L={}) differs from the sender's", len)),
        }
    }
    Ok(())
}

/// The two contexts must share no key material: the receiver opens none of the ciphertexts (each
/// tried at the receiver's current position, which a failure must not move) and every export
/// differs. Returns a description of the first thing that is shared.
pub fn probe_disjoint(rcv: &mut dyn DynReceiver, p: &Probe, rcv_sealing: bool) -> Result<(), String> {
    if rcv_sealing {
        for (i, (ct, aad, _)) in p.cts.iter().enumerate() {
            if let Ok(pt) = rcv.open(ct, aad) {
                return Err(format!("the receiver opened ciphertext #{} of the sender ({} plaintext bytes)", i, pt.len()));
            }
            // also at the matching position, in case an earlier acceptance is what moves it
            rcv.set_seq(i as u64);
            if let Ok(pt) = rcv.open(ct, aad) {
                return Err(format!("the receiver opened ciphertext #{} of the sender at position {} ({} plaintext bytes)", i, i, pt.len()));
            }
            rcv.set_seq(0);
        }
    }
    for (ctx, len, v) in &p.exports {
        if let Ok(got) = rcv.export(ctx, *len) {
            if &got == v {
                return Err(format!("export(ctx {:?}, L={}) is identical on both sides", String::from_utf8_lossy(ctx), len));
            }
        }
    }
    Ok(())
}

/// Outcome of a long run of rejected deliveries on ONE receiver through the public API only
pub enum LongRun {
    /// all `n` deliveries were rejected with OpenError and the two genuine messages then opened
    Fine(u64),
    /// a modified / out-of-sequence delivery returned Ok
    Accepted(String),
    /// a rejected delivery returned something other than OpenError
    ChangedError(String),
    /// the genuine in-sequence message was refused afterwards
    NextRejected(String),
    Panicked(String),
    Infra(String),
}

/// `n` consecutive rejected deliveries (bad tag through the in-place form, garbage, a future
/// message, wrong aad, a too-short input - no success in between), then the two genuine messages.
/// A counter of failures kept inside a context shows up here and nowhere else.
pub fn long_rejection_run(aead: crate::refmodel::hpke_ref::AeadId, n: u64) -> LongRun {
    use crate::refmodel::hpke_ref::{KdfId, KemId, Suite};
    let r = std::panic::catch_unwind(std::panic::AssertUnwindSafe(|| {
        let s = Suite { kem: KemId::X25519, kdf: KdfId::Sha256, aead };
        let d = suite::get(s);
        let sess = crate::gen::cell_session(s, 0, 606);
        let keys = sess.keys();
        let Ok((enc, mut snd)) = honest_sender(d, &sess, &keys) else { return LongRun::Infra("setup failed".into()) };
        let Ok(mut rcv) = honest_receiver(d, &sess, &keys, &enc) else { return LongRun::Infra("setup failed".into()) };
        let Ok(c0) = snd.seal(b"first message", b"a0") else { return LongRun::Infra("seal failed".into()) };
        let Ok(c1) = snd.seal(b"second message", b"") else { return LongRun::Infra("seal failed".into()) };
        let mut bad_tag = c0[c0.len() - 16..].to_vec();
        bad_tag[0] ^= 1;
        let garbage = [0x5au8; 24];
        let mut flipped = c0.clone();
        flipped[0] ^= 0x80;
        for i in 0..n {
            let (what, r): (&str, Result<(), String>) = match i % 6 {
                0 => {
                    let mut body = c0[..c0.len() - 16].to_vec();
                    ("tag bit flipped (in-place form)", rcv.open_in_place(&mut body, b"a0", &bad_tag).map_err(|f| format!("{:?}", f)).map(|_| ()))
                }
                1 => ("garbage", rcv.open(&garbage, b"").map_err(|e| format!("{:?}", e)).map(|_| ())),
                2 => ("the next-but-one message", rcv.open(&c1, b"").map_err(|e| format!("{:?}", e)).map(|_| ())),
                3 => ("ciphertext bit flipped", rcv.open(&flipped, b"a0").map_err(|e| format!("{:?}", e)).map(|_| ())),
                4 => ("wrong aad", rcv.open(&c0, b"a1").map_err(|e| format!("{:?}", e)).map(|_| ())),
                _ => ("truncated below a tag", rcv.open(&c0[..7], b"a0").map_err(|e| format!("{:?}", e)).map(|_| ())),
            };
            match r {
                Err(e) if e.contains("OpenError") => {}
                Ok(()) => return LongRun::Accepted(format!("{}: delivery #{} on one receiver ({}) was ACCEPTED after {} consecutive rejections", aead.name(), i, what, i)),
                Err(e) => return LongRun::ChangedError(format!("{}: rejected delivery #{} on one receiver ({}) returned {} instead of OpenError", aead.name(), i, what, e)),
            }
        }
        match rcv.open(&c0, b"a0") {
            Ok(p) if p == b"first message" => {}
            other => return LongRun::NextRejected(format!("{}: after {} rejected deliveries the in-sequence message was not accepted: {:?}", aead.name(), n, other.map(|p| p.len()))),
        }
        match rcv.open(&c1, b"") {
            Ok(p) if p == b"second message" => LongRun::Fine(n),
            other => LongRun::NextRejected(format!("{}: after {} rejected deliveries and one success the next message was not accepted: {:?}", aead.name(), n, other.map(|p| p.len()))),
        }
    }));
    match r {
        Ok(x) => x,
        Err(p) => {
            let msg = p.downcast_ref::<String>().cloned().or_else(|| p.downcast_ref::<&str>().map(|s| s.to_string())).unwrap_or_else(|| "panic".into());
            LongRun::Panicked(format!("{}: a long run of rejected deliveries on one receiver panicked: {}", aead.name(), msg))
        }
    }
}
