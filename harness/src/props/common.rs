//! Helpers shared by the property modules.

use crate::engine::Verdict;
use crate::gen::{Keys, Session};
use crate::suite::{self, DynReceiver, DynSender, DynSuite, Fail, ScriptRng};

pub fn construct_skip(step: &str, f: &Fail) -> Verdict {
    Verdict::skip(format!("construction_failed({}:{:?})", step, f))
}

/// Honest sender for a session (RNG = the session's stream). A failure is a construction failure:
/// the properties that own setup (C01, C02, C13) call the adapter directly instead.
pub fn honest_sender(d: &dyn DynSuite, sess: &Session, keys: &Keys) -> Result<(Vec<u8>, Box<dyn DynSender>), Verdict> {
    let mut rng = ScriptRng::new(&sess.stream);
    d.setup_sender(&sess.mode_s(keys), &keys.pk_r, &sess.info, &mut rng).map_err(|f| construct_skip("setup_sender", &f))
}

pub fn honest_receiver(d: &dyn DynSuite, sess: &Session, keys: &Keys, enc: &[u8]) -> Result<Box<dyn DynReceiver>, Verdict> {
    d.setup_receiver(&sess.mode_r(keys), &keys.sk_r, enc, &sess.info).map_err(|f| construct_skip("setup_receiver", &f))
}

pub fn labels_for(sess: &Session, obs: &mut crate::engine::Obs) {
    obs.label(format!("kem:{}", sess.suite.kem.name()));
    obs.label(format!("kdf:{:?}", sess.suite.kdf));
    obs.label(format!("aead:{}", sess.suite.aead.name()));
    obs.label(format!("mode:{}", sess.mode));
}

pub fn dsuite(sess: &Session) -> &'static dyn DynSuite {
    suite::get(sess.suite)
}
