//! C08 - sender authentication: Auth modes accept only the holder of the expected key; PSK modes
//! only the holder of the PSK.

use super::common::*;
use crate::engine::{pick_index, Obs, Property, Tier, Verdict};
use crate::gen::{self, Session};
use crate::refmodel::hpke_ref::{self as r, AeadId, KdfId, KemId, Suite};
use crate::suite::{Fail, ModeS, ScriptRng};
use crate::util::Bytes;
use proptest::prelude::*;
use serde::{Deserialize, Serialize};

#[derive(Clone, Debug, PartialEq, Eq, Serialize, Deserialize)]
pub enum Impostor {
    /// a different identity key pair (skI, pkI)
    OtherPair,
    /// knows only the public half: pairs the expected pkS with its own private key skI
    PublicHalfOnly,
    /// sends in the corresponding non-authenticated mode (Base for Auth, Psk for AuthPsk)
    Unauthenticated,
    /// PSK possession: same psk_id, psk differing in one bit
    PskBit(u16),
    /// PSK possession: psk with one byte appended / removed
    PskLength(bool),
    /// PSK possession: a completely different psk
    PskOther,
    /// a transcript computed by the reference model from public values and an ephemeral key only:
    /// `term` is what stands in for DH(skS, pkR) (see `hpke_ref::forged_auth_setup_s`), `expect`
    /// selects the sender key the receiver expects: 0 the honest pkS, k in 1..=14 the k-th small-order
    /// X25519 encoding, otherwise (and for k>0 on NIST suites) the recipient's own public key
    Forged { term: u8, expect: u8 },
}

#[derive(Clone, Debug, Serialize, Deserialize)]
pub struct Case {
    pub sess: Session,
    pub ikm_i: Bytes,
    pub kind: Impostor,
}

pub struct P;

fn check(case: &Case, obs: &mut Obs) -> Verdict {
    let sess = &case.sess;
    let suite_ = sess.suite;
    let d = dsuite(sess);
    labels_for(sess, obs);
    let kind_label = format!("{:?}", case.kind);
    obs.label(format!("impostor:{}", kind_label.split('(').next().unwrap_or("")));
    let keys = sess.keys();
    let auth = sess.mode & 2 != 0;
    let pskm = sess.mode & 1 != 0;
    match case.kind {
        Impostor::OtherPair | Impostor::PublicHalfOnly | Impostor::Unauthenticated | Impostor::Forged { .. } if !auth => return Verdict::skip("identity impostor outside an Auth mode"),
        Impostor::PskBit(_) | Impostor::PskLength(_) | Impostor::PskOther if !pskm => return Verdict::skip("psk impostor outside a PSK mode"),
        _ => {}
    }
    // honest control
    let (enc_h, mut snd_h) = match honest_sender(d, sess, &keys) {
        Ok(x) => x,
        Err(v) => return v,
    };
    let probe_h = match probe_sender(snd_h.as_mut(), suite_.aead.sealing()) {
        Ok(p) => p,
        Err(v) => return v,
    };
    let mut rcv_h = match honest_receiver(d, sess, &keys, &enc_h) {
        Ok(r) => r,
        Err(v) => return v,
    };
    if let Err(e) = probe_agrees(rcv_h.as_mut(), &probe_h) {
        return Verdict::fail("C08/honest-sender-rejected", format!("the honest sender (holder of skS / the PSK) was not accepted: {} ({} mode {})", e, suite_.label(), sess.mode));
    }
    if let Impostor::Forged { term, expect } = case.kind {
        return forged(case, sess, &keys, term, expect, obs);
    }
    // the impostor
    let (sk_i, pk_i) = r::derive_key_pair(suite_.kem, &case.ikm_i);
    if auth && pk_i == keys.pk_s {
        return Verdict::skip("impostor key equals the sender key");
    }
    let mut ms: ModeS = sess.mode_s(&keys);
    match &case.kind {
        Impostor::OtherPair => {
            ms.sk_s = Bytes(sk_i);
            ms.pk_s = Bytes(pk_i);
        }
        Impostor::PublicHalfOnly => {
            ms.sk_s = Bytes(sk_i);
        }
        Impostor::Unauthenticated => {
            ms.mode = sess.mode & 1;
        }
        Impostor::PskBit(k) => {
            let mut p = ms.psk.0.clone();
            let bit = pick_index(*k, p.len() * 8);
            p[bit / 8] ^= 1 << (bit % 8);
            ms.psk = Bytes(p);
        }
        Impostor::PskLength(longer) => {
            let mut p = ms.psk.0.clone();
            if *longer {
                p.push(0)
            } else if p.len() > 1 {
                p.pop();
            } else {
                return Verdict::skip("psk too short to shorten");
            }
            ms.psk = Bytes(p);
        }
        Impostor::PskOther => {
            let mut p = case.ikm_i.0.clone();
            p.push(1);
            if p == ms.psk.0 {
                return Verdict::skip("same psk");
            }
            ms.psk = Bytes(p);
        }
        Impostor::Forged { .. } => unreachable!(),
    }
    obs.nontrivial = matches!(case.kind, Impostor::PublicHalfOnly | Impostor::PskBit(_));
    let mut rng = ScriptRng::new(&sess.stream);
    let (enc_i, mut snd_i) = match d.setup_sender(&ms, &keys.pk_r, &sess.info, &mut rng) {
        Ok(x) => x,
        Err(Fail::Hpke(_)) => {
            obs.label("impostor-setup-fails");
            return Verdict::Pass;
        }
        Err(f) => return construct_skip("impostor sender", &f),
    };
    let probe_i = match probe_sender(snd_i.as_mut(), suite_.aead.sealing()) {
        Ok(p) => p,
        Err(v) => return v,
    };
    // the receiver expects the honest pkS / psk
    let mut rcv = match d.setup_receiver(&sess.mode_r(&keys), &keys.sk_r, &enc_i, &sess.info) {
        Ok(r) => r,
        Err(Fail::Hpke(_)) => {
            obs.label("receiver-setup-fails");
            return Verdict::Pass;
        }
        Err(f) => return construct_skip("receiver", &f),
    };
    obs.inner_checks += (probe_i.cts.len() * 2 + probe_i.exports.len()) as u64;
    match probe_disjoint(rcv.as_mut(), &probe_i, suite_.aead.sealing()) {
        Ok(()) => Verdict::Pass,
        Err(shared) => Verdict::fail(
            format!("C08/impostor-accepted/{}", kind_label.split('(').next().unwrap_or("")),
            format!("{} mode {}: a sender acting as {:?} obtained a context the receiver (expecting pkS / the PSK) accepts: {}", suite_.label(), sess.mode, case.kind, shared),
        ),
    }
}

/// The forged-transcript impostor: no library sender is involved, the reference model plays an
/// attacker who knows pkR, the pkS the receiver expects, info and (AuthPsk) the PSK, but no skS.
fn forged(case: &Case, sess: &Session, keys: &gen::Keys, term: u8, expect: u8, obs: &mut Obs) -> Verdict {
    let suite_ = sess.suite;
    let d = dsuite(sess);
    let small = crate::corpus::small_order_14().unwrap_or_default();
    let expect_pk: Vec<u8> = if expect == 0 {
        keys.pk_s.clone()
    } else if suite_.kem == KemId::X25519 && !small.is_empty() && expect <= 14 {
        small[(expect as usize - 1) % small.len()].to_vec()
    } else {
        keys.pk_r.clone()
    };
    obs.label(format!("forged-term:{}", term % 5));
    obs.label(if expect == 0 { "forged-expect:honest-pkS" } else if suite_.kem == KemId::X25519 && expect <= 14 { "forged-expect:small-order" } else { "forged-expect:own-pkR" });
    obs.nontrivial = true;
    let (sk_e, _) = r::derive_key_pair(suite_.kem, &case.ikm_i);
    let mut si = sess.sender_in(keys, &[]);
    si.pk_s = &expect_pk;
    let Some((enc, ks)) = r::forged_auth_setup_s(&si, &sk_e, term % 5) else {
        return Verdict::skip("forged transcript not computable");
    };
    let mut probe = Probe { cts: Vec::new(), exports: Vec::new() };
    if suite_.aead.sealing() {
        for (i, (pt, aad)) in [(&b"probe message zero"[..], &b"aad-0"[..]), (&b""[..], &b""[..]), (&b"third probe message, a little longer than a block....."[..], &b"x"[..])].into_iter().enumerate() {
            probe.cts.push((ks.seal(i as u64, aad, pt), aad.to_vec(), pt.to_vec()));
        }
    }
    for (ctx, len) in [(&b""[..], 32usize), (&b"exporter context"[..], 16usize), (&b"k"[..], 64usize)] {
        if let Some(v) = ks.export(ctx, len) {
            probe.exports.push((ctx.to_vec(), len, v));
        }
    }
    let mut mr = sess.mode_r(keys);
    mr.pk_s = Bytes(expect_pk.clone());
    let mut rcv = match d.setup_receiver(&mr, &keys.sk_r, &enc, &sess.info) {
        Ok(r) => r,
        Err(Fail::Hpke(_)) => {
            obs.label("receiver-setup-fails");
            return Verdict::Pass;
        }
        Err(f) => return construct_skip("receiver", &f),
    };
    obs.inner_checks += (probe.cts.len() * 2 + probe.exports.len()) as u64;
    match probe_disjoint(rcv.as_mut(), &probe, suite_.aead.sealing()) {
        Ok(()) => Verdict::Pass,
        Err(shared) => Verdict::fail(
            "C08/impostor-accepted/Forged",
            format!(
                "{} mode {}: a transcript built without any sender private key (identity term kind {}, receiver expecting pkS={}) is accepted by the receiver: {}",
                suite_.label(), sess.mode, term % 5, crate::util::hex(&expect_pk), shared
            ),
        ),
    }
}

impl Property for P {
    type Case = Case;
    fn id(&self) -> &'static str {
        "C08"
    }
    fn rule(&self) -> String {
        "Generated: sessions over 4 KEMs x any KDF/AEAD in {Auth, AuthPsk} (identity impostors) and {Psk, AuthPsk} (PSK possession) with impostor kinds: a different key pair; public half only (OpModeS::Auth((skI, pkS)), a real call since the API takes the pair unchecked); sender in the non-authenticated sibling mode; psk differing in one bit / in length / entirely, same psk_id; forged transcripts computed by the reference model from public values and an ephemeral key only (identity DH term omitted / Ndh zero bytes / omitted together with pkS in kem_context / DH(skE, pkS) / the ephemeral DH repeated) against a receiver expecting the honest pkS, each of the 14 small-order X25519 encodings, or its own public key (pkS == pkR). \
         Swept: 4 KEMs x applicable modes x 6 impostor kinds; 5 forged-term kinds x expected keys x {Auth, AuthPsk} x 4 KEMs x {sealing, export-only}; every PSK length 1..=1200 (every 7th up to 2100, ten lengths just above 4 KiB..128 KiB) with the impostor's PSK differing in its last bit / one byte shorter / one byte longer. A third of the generated PSK impostors use a 301..=2100-byte PSK with the difference at its end. \
         Oracle: positive control (honest sender accepted, exports equal); for the impostor the receiver opens none of 3 ciphertexts and all 3 exports differ (or a setup fails). \
         Non-trivial: the public-half-only impostor, one-bit PSK differences and forged transcripts."
            .into()
    }
    fn assumptions(&self) -> Vec<String> {
        vec!["acceptance is observed through opens and export equality; a 2^-128 coincidence is ignored".into()]
    }
    fn strategy(&self, _tier: Tier) -> BoxedStrategy<Case> {
        let kind = prop_oneof![
            2 => Just(Impostor::OtherPair),
            3 => Just(Impostor::PublicHalfOnly),
            2 => Just(Impostor::Unauthenticated),
            3 => any::<u16>().prop_map(Impostor::PskBit),
            1 => any::<bool>().prop_map(Impostor::PskLength),
            1 => Just(Impostor::PskOther),
            3 => (0u8..5, prop_oneof![2 => Just(0u8), 3 => 1u8..=15]).prop_map(|(term, expect)| Impostor::Forged { term, expect }),
        ];
        (gen::session_any(), gen::ikm(), kind, any::<bool>(), any::<u16>())
            .prop_map(|(mut sess, ikm_i, mut kind, both, long)| {
                // a long PSK (301..=2100 bytes) whose impostor copy differs only at its very end: a key
                // schedule that silently looks at a prefix of the PSK accepts it
                if matches!(kind, Impostor::PskBit(_) | Impostor::PskLength(_)) && long % 3 == 0 {
                    let l = 301 + (long as usize * 1800 >> 16);
                    sess.psk = Bytes(gen::fill(l, 5, long as u64));
                    if let Impostor::PskBit(k) = kind {
                        kind = Impostor::PskBit(65535 - (k % 8));
                    }
                }
                sess.mode = match kind {
                    Impostor::OtherPair | Impostor::PublicHalfOnly | Impostor::Unauthenticated | Impostor::Forged { .. } => {
                        if both {
                            3
                        } else {
                            2
                        }
                    }
                    _ => {
                        if both {
                            3
                        } else {
                            1
                        }
                    }
                };
                Case { sess, ikm_i, kind }
            })
            .boxed()
    }
    fn cases(&self, tier: Tier) -> u32 {
        tier.pick(10000, 100000)
    }
    fn sweeps(&self, _tier: Tier) -> Vec<(String, Vec<Case>)> {
        let mut cells = Vec::new();
        for kem in KemId::ALL {
            for (kdf, aead) in [(KdfId::Sha256, AeadId::Aes128), (KdfId::Sha512, AeadId::ChaCha), (KdfId::Sha384, AeadId::Export)] {
                let s = Suite { kem, kdf, aead };
                for mode in 1..4u8 {
                    for kind in [Impostor::OtherPair, Impostor::PublicHalfOnly, Impostor::Unauthenticated, Impostor::PskBit(0), Impostor::PskBit(65535), Impostor::PskLength(true), Impostor::PskLength(false), Impostor::PskOther] {
                        let id_kind = matches!(kind, Impostor::OtherPair | Impostor::PublicHalfOnly | Impostor::Unauthenticated);
                        if (id_kind && mode & 2 == 0) || (!id_kind && mode & 1 == 0) {
                            continue;
                        }
                        cells.push(Case { sess: gen::cell_session(s, mode, 8), ikm_i: Bytes(gen::fill(kem.nsk(), 5, 88)), kind });
                    }
                }
            }
        }
        // forged transcripts: every identity-term kind x every expected key (X25519: the 14 small-order
        // encodings and the honest key; NIST: the honest key and the recipient's own) x Auth/AuthPsk
        let mut forged = Vec::new();
        for kem in KemId::ALL {
            for (kdf, aead) in [(KdfId::Sha256, AeadId::ChaCha), (KdfId::Sha512, AeadId::Export)] {
                let s = Suite { kem, kdf, aead };
                for mode in [2u8, 3] {
                    for term in 0..5u8 {
                        let expects: Vec<u8> = if kem == KemId::X25519 { (0..=15).collect() } else { vec![0, 1] };
                        for expect in expects {
                            forged.push(Case { sess: gen::cell_session(s, mode, 8), ikm_i: Bytes(gen::fill(kem.nsk(), 5, 89)), kind: Impostor::Forged { term, expect } });
                        }
                    }
                }
            }
        }
        // every PSK length 1..=1200 (then every 7th up to 2100): the impostor's PSK differs in its last
        // bit, lacks the last byte, or has one more byte
        let mut psklen = Vec::new();
        for l in (1..=1200usize).chain((1201..=2100).step_by(7)).chain([4095usize, 4097, 5000, 8193, 10000, 16385, 32769, 65537, 70001, 131073]) {
            let s = Suite { kem: KemId::X25519, kdf: KdfId::ALL[l % 3], aead: if l % 5 == 0 { AeadId::Export } else { AeadId::ChaCha } };
            let mut sess = gen::cell_session(s, if l % 2 == 0 { 1 } else { 3 }, 81);
            sess.psk = Bytes(gen::fill(l, 5, 810 + l as u64));
            let kind = match l % 3 {
                0 => Impostor::PskLength(true),
                1 if l > 1 => Impostor::PskLength(false),
                _ => Impostor::PskBit(65535),
            };
            psklen.push(Case { sess: sess.clone(), ikm_i: Bytes(gen::fill(32, 5, 88)), kind });
            if l % 3 != 2 {
                psklen.push(Case { sess, ikm_i: Bytes(gen::fill(32, 5, 88)), kind: Impostor::PskBit(65535) });
            }
        }
        vec![("kem_x_mode_x_impostor_cells".into(), cells), ("forged_transcripts_x_expected_sender_key".into(), forged), ("every_psk_length_with_a_difference_at_the_end".into(), psklen)]
    }
    fn check(&self, case: &Case, obs: &mut Obs) -> Verdict {
        check(case, obs)
    }
}
