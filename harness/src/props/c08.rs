//! C08 - sender authentication: Auth modes accept only the holder of the expected key; PSK modes
//! only the holder of the PSK.

use super::common::*;
use crate::engine::{pick_index, Obs, Property, Tier, Verdict};
use crate::gen::{self, Session};
use crate::refmodel::hpke_ref::{self as r, AeadId, KdfId, KemId, Suite};
use crate::suite::{Fail, ModeS, ScriptRng};
use crate::util::Bytes;
use proptest::prelude::*;
use serde::{Deserialize, Serialize};

#[derive(Clone, Debug, PartialEq, Eq, Serialize, Deserialize)]
pub enum Impostor {
    /// a different identity key pair (skI, pkI)
    OtherPair,
    /// knows only the public half: pairs the expected pkS with its own private key skI
    PublicHalfOnly,
    /// sends in the corresponding non-authenticated mode (Base for Auth, Psk for AuthPsk)
    Unauthenticated,
    /// PSK possession: same psk_id, psk differing in one bit
    PskBit(u16),
    /// PSK possession: psk with one byte appended / removed
    PskLength(bool),
    /// PSK possession: a completely different psk
    PskOther,
}

#[derive(Clone, Debug, Serialize, Deserialize)]
pub struct Case {
    pub sess: Session,
    pub ikm_i: Bytes,
    pub kind: Impostor,
}

pub struct P;

fn check(case: &Case, obs: &mut Obs) -> Verdict {
    let sess = &case.sess;
    let suite_ = sess.suite;
    let d = dsuite(sess);
    labels_for(sess, obs);
    let kind_label = format!("{:?}", case.kind);
    obs.label(format!("impostor:{}", kind_label.split('(').next().unwrap_or("")));
    let keys = sess.keys();
    let auth = sess.mode & 2 != 0;
    let pskm = sess.mode & 1 != 0;
    match case.kind {
        Impostor::OtherPair | Impostor::PublicHalfOnly | Impostor::Unauthenticated if !auth => return Verdict::skip("identity impostor outside an Auth mode"),
        Impostor::PskBit(_) | Impostor::PskLength(_) | Impostor::PskOther if !pskm => return Verdict::skip("psk impostor outside a PSK mode"),
        _ => {}
    }
    // honest control
    let (enc_h, mut snd_h) = match honest_sender(d, sess, &keys) {
        Ok(x) => x,
        Err(v) => return v,
    };
    let probe_h = match probe_sender(snd_h.as_mut(), suite_.aead.sealing()) {
        Ok(p) => p,
        Err(v) => return v,
    };
    let mut rcv_h = match honest_receiver(d, sess, &keys, &enc_h) {
        Ok(r) => r,
        Err(v) => return v,
    };
    if let Err(e) = probe_agrees(rcv_h.as_mut(), &probe_h) {
        return Verdict::fail("C08/honest-sender-rejected", format!("the honest sender (holder of skS / the PSK) was not accepted: {} ({} mode {})", e, suite_.label(), sess.mode));
    }
    // the impostor
    let (sk_i, pk_i) = r::derive_key_pair(suite_.kem, &case.ikm_i);
    if auth && pk_i == keys.pk_s {
        return Verdict::skip("impostor key equals the sender key");
    }
    let mut ms: ModeS = sess.mode_s(&keys);
    match &case.kind {
        Impostor::OtherPair => {
            ms.sk_s = Bytes(sk_i);
            ms.pk_s = Bytes(pk_i);
        }
        Impostor::PublicHalfOnly => {
            ms.sk_s = Bytes(sk_i);
        }
        Impostor::Unauthenticated => {
            ms.mode = sess.mode & 1;
        }
        Impostor::PskBit(k) => {
            let mut p = ms.psk.0.clone();
            let bit = pick_index(*k, p.len() * 8);
            p[bit / 8] ^= 1 << (bit % 8);
            ms.psk = Bytes(p);
        }
        Impostor::PskLength(longer) => {
            let mut p = ms.psk.0.clone();
            if *longer {
                p.push(0)
            } else if p.len() > 1 {
                p.pop();
            } else {
                return Verdict::skip("psk too short to shorten");
            }
            ms.psk = Bytes(p);
        }
        Impostor::PskOther => {
            let mut p = case.ikm_i.0.clone();
            p.push(1);
            if p == ms.psk.0 {
                return Verdict::skip("same psk");
            }
            ms.psk = Bytes(p);
        }
    }
    obs.nontrivial = matches!(case.kind, Impostor::PublicHalfOnly | Impostor::PskBit(_));
    let mut rng = ScriptRng::new(&sess.stream);
    let (enc_i, mut snd_i) = match d.setup_sender(&ms, &keys.pk_r, &sess.info, &mut rng) {
        Ok(x) => x,
        Err(Fail::Hpke(_)) => {
            obs.label("impostor-setup-fails");
            return Verdict::Pass;
        }
        Err(f) => return construct_skip("impostor sender", &f),
    };
    let probe_i = match probe_sender(snd_i.as_mut(), suite_.aead.sealing()) {
        Ok(p) => p,
        Err(v) => return v,
    };
    // the receiver expects the honest pkS / psk
    let mut rcv = match d.setup_receiver(&sess.mode_r(&keys), &keys.sk_r, &enc_i, &sess.info) {
        Ok(r) => r,
        Err(Fail::Hpke(_)) => {
            obs.label("receiver-setup-fails");
            return Verdict::Pass;
        }
        Err(f) => return construct_skip("receiver", &f),
    };
    obs.inner_checks += (probe_i.cts.len() * 2 + probe_i.exports.len()) as u64;
    match probe_disjoint(rcv.as_mut(), &probe_i, suite_.aead.sealing()) {
        Ok(()) => Verdict::Pass,
        Err(shared) => Verdict::fail(
            format!("C08/impostor-accepted/{}", kind_label.split('(').next().unwrap_or("")),
            format!("{} mode {}: a sender acting as {:?} obtained a context the receiver (expecting pkS / the PSK) accepts: {}", suite_.label(), sess.mode, case.kind, shared),
        ),
    }
}

impl Property for P {
    type Case = Case;
    fn id(&self) -> &'static str {
        "C08"
    }
    fn rule(&self) -> String {
        "Generated: sessions over 4 KEMs x any KDF/AEAD in {Auth, AuthPsk} (identity impostors) and {Psk, AuthPsk} (PSK possession) with impostor kinds: a different key pair; public half only (OpModeS::Auth((skI, pkS)), a real call since the API takes the pair unchecked); sender in the non-authenticated sibling mode; psk differing in one bit / in length / entirely, same psk_id. \
         Swept: 4 KEMs x applicable modes x 6 impostor kinds. \
         Oracle: positive control (honest sender accepted, exports equal); for the impostor the receiver opens none of 3 ciphertexts and all 3 exports differ (or a setup fails). \
         Non-trivial: the public-half-only impostor and one-bit PSK differences."
            .into()
    }
    fn assumptions(&self) -> Vec<String> {
        vec!["acceptance is observed through opens and export equality; a 2^-128 coincidence is ignored".into()]
    }
    fn strategy(&self, _tier: Tier) -> BoxedStrategy<Case> {
        let kind = prop_oneof![
            2 => Just(Impostor::OtherPair),
            3 => Just(Impostor::PublicHalfOnly),
            2 => Just(Impostor::Unauthenticated),
            3 => any::<u16>().prop_map(Impostor::PskBit),
            1 => any::<bool>().prop_map(Impostor::PskLength),
            1 => Just(Impostor::PskOther),
        ];
        (gen::session_any(), gen::ikm(), kind, any::<bool>())
            .prop_map(|(mut sess, ikm_i, kind, both)| {
                sess.mode = match kind {
                    Impostor::OtherPair | Impostor::PublicHalfOnly | Impostor::Unauthenticated => {
                        if both {
                            3
                        } else {
                            2
                        }
                    }
                    _ => {
                        if both {
                            3
                        } else {
                            1
                        }
                    }
                };
                Case { sess, ikm_i, kind }
            })
            .boxed()
    }
    fn cases(&self, tier: Tier) -> u32 {
        tier.pick(10000, 100000)
    }
    fn sweeps(&self, _tier: Tier) -> Vec<(String, Vec<Case>)> {
        let mut cells = Vec::new();
        for kem in KemId::ALL {
            for (kdf, aead) in [(KdfId::Sha256, AeadId::Aes128), (KdfId::Sha512, AeadId::ChaCha), (KdfId::Sha384, AeadId::Export)] {
                let s = Suite { kem, kdf, aead };
                for mode in 1..4u8 {
                    for kind in [Impostor::OtherPair, Impostor::PublicHalfOnly, Impostor::Unauthenticated, Impostor::PskBit(0), Impostor::PskBit(65535), Impostor::PskLength(true), Impostor::PskLength(false), Impostor::PskOther] {
                        let id_kind = matches!(kind, Impostor::OtherPair | Impostor::PublicHalfOnly | Impostor::Unauthenticated);
                        if (id_kind && mode & 2 == 0) || (!id_kind && mode & 1 == 0) {
                            continue;
                        }
                        cells.push(Case { sess: gen::cell_session(s, mode, 8), ikm_i: Bytes(gen::fill(kem.nsk(), 5, 88)), kind });
                    }
                }
            }
        }
        vec![("kem_x_mode_x_impostor_cells".into(), cells)]
    }
    fn check(&self, case: &Case, obs: &mut Obs) -> Verdict {
        check(case, obs)
    }
}
