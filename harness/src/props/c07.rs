//! C07 - context binding: any single-component mismatch between the two setups breaks the session.

use super::common::*;
use crate::engine::{pick_index, Obs, Property, Tier, Verdict};
use crate::gen::{self, Session};
use crate::refmodel::arith::{sub_plain, to_be};
use crate::refmodel::hpke_ref::{self as r, AeadId, KdfId, KemId, Suite};
use crate::suite::{self, Fail, ModeR, ScriptRng};
use crate::util::Bytes;
use proptest::prelude::*;
use serde::{Deserialize, Serialize};

#[derive(Clone, Debug, PartialEq, Eq, Serialize, Deserialize)]
pub enum BytePert {
    FlipBit(u16),
    AppendZero,
    PrependZero,
    DropLast,
    SwapTwo(u16, u16),
    /// empty -> one zero byte; non-empty -> empty
    ToggleEmpty,
}

#[derive(Clone, Debug, PartialEq, Eq, Serialize, Deserialize)]
pub enum Pert {
    Info(BytePert),
    Psk(BytePert),
    PskId(BytePert),
    /// move n bytes from the end of info to the front of psk_id
    ShiftInfoToPskId(u8),
    ShiftPskIdToInfo(u8),
    /// move n bytes from the end of psk to the front of psk_id
    ShiftPskToPskId(u8),
    ShiftPskIdToPsk(u8),
    /// swap the two PSK fields
    SwapPskAndId,
    /// receiver runs in this mode instead, with the same psk/psk_id/pkS data (empty bundle when the
    /// sender has none)
    Mode(u8),
    Kdf(KdfId),
    Aead(AeadId),
    /// a recipient key pair with a different public key
    RecipientKey,
    /// the encapsulated key of a different, valid encapsulation to the same recipient
    EncOther,
    /// a different encoding with the same Diffie-Hellman result: NIST y -> p-y, X25519 bit 255 set
    EncSameDh,
    /// Auth modes: the receiver expects a different sender public key
    SenderKey,
}

#[derive(Clone, Debug, Serialize, Deserialize)]
pub struct Case {
    pub sess: Session,
    pub pert: Pert,
}

pub struct P;

fn apply_bytes(b: &[u8], p: &BytePert) -> Option<Vec<u8>> {
    let mut v = b.to_vec();
    match p {
        BytePert::FlipBit(k) => {
            if v.is_empty() {
                return None;
            }
            let bit = pick_index(*k, v.len() * 8);
            v[bit / 8] ^= 1 << (bit % 8);
        }
        BytePert::AppendZero => v.push(0),
        BytePert::PrependZero => v.insert(0, 0),
        BytePert::DropLast => {
            v.pop()?;
        }
        BytePert::SwapTwo(i, j) => {
            if v.len() < 2 {
                return None;
            }
            let (i, j) = (pick_index(*i, v.len()), pick_index(*j, v.len()));
            v.swap(i, j);
        }
        BytePert::ToggleEmpty => {
            if v.is_empty() {
                v.push(0)
            } else {
                v.clear()
            }
        }
    }
    if v == b {
        None
    } else {
        Some(v)
    }
}

fn shift(from: &[u8], to: &[u8], n: u8) -> Option<(Vec<u8>, Vec<u8>)> {
    let n = n as usize;
    if n == 0 || from.len() < n {
        return None;
    }
    let cut = from.len() - n;
    let mut t = from[cut..].to_vec();
    t.extend_from_slice(to);
    Some((from[..cut].to_vec(), t))
}

/// An encoding of the same point's negative / the same u with bit 255 set: same DH output
pub fn same_dh_encoding(kem: KemId, enc: &[u8]) -> Option<Vec<u8>> {
    match kem.curve() {
        None => {
            let mut e = enc.to_vec();
            e[31] ^= 0x80;
            Some(e)
        }
        Some(c) => {
            let p = c.decode_valid(enc)?;
            let (negy, _) = sub_plain(&c.p, &p.y);
            let mut out = enc[..1 + c.fb].to_vec();
            out.extend_from_slice(&to_be(&negy, c.fb));
            if out == enc {
                None
            } else {
                Some(out)
            }
        }
    }
}

fn pert_label(p: &Pert) -> String {
    let s = format!("{:?}", p);
    s.split(['(', ' ']).next().unwrap_or("").to_string()
}

fn check(case: &Case, obs: &mut Obs) -> Verdict {
    let sess = &case.sess;
    let suite_s = sess.suite;
    let d = dsuite(sess);
    labels_for(sess, obs);
    obs.label(format!("pert:{}", pert_label(&case.pert)));
    let keys = sess.keys();
    let (enc, mut snd) = match honest_sender(d, sess, &keys) {
        Ok(x) => x,
        Err(v) => return v,
    };
    let probe = match probe_sender(snd.as_mut(), suite_s.aead.sealing()) {
        Ok(p) => p,
        Err(v) => return v,
    };
    // positive control: the matching receiver agrees
    let mut honest = match honest_receiver(d, sess, &keys, &enc) {
        Ok(r) => r,
        Err(v) => return v,
    };
    if let Err(e) = probe_agrees(honest.as_mut(), &probe) {
        return Verdict::skip(format!("construction_failed(positive control: {})", e));
    }

    // the perturbed receiver
    let mut suite_r = suite_s;
    let mut mr: ModeR = sess.mode_r(&keys);
    let mut info = sess.info.0.clone();
    let mut sk_r = keys.sk_r.clone();
    let mut enc_r = enc.clone();
    let psk_mode = sess.mode & 1 != 0;
    let minimal;
    match &case.pert {
        Pert::Info(bp) => {
            let Some(v) = apply_bytes(&info, bp) else { return Verdict::skip("perturbation does not change the value") };
            info = v;
            minimal = true;
        }
        Pert::Psk(bp) | Pert::PskId(bp) => {
            if !psk_mode {
                return Verdict::skip("psk perturbation outside a PSK mode");
            }
            let is_psk = matches!(case.pert, Pert::Psk(_));
            let cur = if is_psk { &mr.psk.0 } else { &mr.psk_id.0 };
            let Some(v) = apply_bytes(cur, bp) else { return Verdict::skip("perturbation does not change the value") };
            if is_psk {
                mr.psk = Bytes(v)
            } else {
                mr.psk_id = Bytes(v)
            }
            minimal = true;
        }
        Pert::ShiftInfoToPskId(n) | Pert::ShiftPskIdToInfo(n) | Pert::ShiftPskToPskId(n) | Pert::ShiftPskIdToPsk(n) => {
            if !psk_mode {
                return Verdict::skip("boundary shift outside a PSK mode");
            }
            match &case.pert {
                Pert::ShiftInfoToPskId(_) => {
                    let Some((a, b)) = shift(&info, &mr.psk_id, *n) else { return Verdict::skip("nothing to shift") };
                    info = a;
                    mr.psk_id = Bytes(b);
                }
                Pert::ShiftPskIdToInfo(_) => {
                    // move the *front* n bytes of psk_id to the end of info
                    let n = *n as usize;
                    if n == 0 || mr.psk_id.len() <= n {
                        return Verdict::skip("nothing to shift");
                    }
                    info.extend_from_slice(&mr.psk_id[..n]);
                    mr.psk_id = Bytes(mr.psk_id[n..].to_vec());
                }
                Pert::ShiftPskToPskId(_) => {
                    if mr.psk.len() <= *n as usize {
                        return Verdict::skip("nothing to shift");
                    }
                    let Some((a, b)) = shift(&mr.psk, &mr.psk_id, *n) else { return Verdict::skip("nothing to shift") };
                    mr.psk = Bytes(a);
                    mr.psk_id = Bytes(b);
                }
                _ => {
                    let n = *n as usize;
                    if n == 0 || mr.psk_id.len() <= n {
                        return Verdict::skip("nothing to shift");
                    }
                    let mut p = mr.psk.0.clone();
                    p.extend_from_slice(&mr.psk_id[..n]);
                    mr.psk = Bytes(p);
                    mr.psk_id = Bytes(mr.psk_id[n..].to_vec());
                }
            }
            minimal = true;
        }
        Pert::SwapPskAndId => {
            if !psk_mode || mr.psk == mr.psk_id {
                return Verdict::skip("swap does not change the value");
            }
            std::mem::swap(&mut mr.psk, &mut mr.psk_id);
            minimal = true;
        }
        Pert::Mode(m) => {
            if *m == sess.mode {
                return Verdict::skip("same mode");
            }
            // identical data: the receiver keeps the sender's psk data (or the empty bundle) and,
            // when it needs a sender key the sender did not use, the session's ikm_s key
            mr.mode = *m;
            if sess.mode & 1 == 0 {
                mr.psk = Bytes::default();
                mr.psk_id = Bytes::default();
            }
            if m & 2 != 0 && sess.mode & 2 == 0 {
                mr.pk_s = Bytes(r::derive_key_pair(suite_s.kem, &sess.ikm_s).1);
            }
            minimal = true;
        }
        Pert::Kdf(k) => {
            if *k == suite_s.kdf {
                return Verdict::skip("same kdf");
            }
            suite_r.kdf = *k;
            minimal = false;
        }
        Pert::Aead(a) => {
            if *a == suite_s.aead {
                return Verdict::skip("same aead");
            }
            suite_r.aead = *a;
            // equal-size pair: AES-256-GCM <-> ChaCha20Poly1305 share Nk and Nn
            minimal = matches!((suite_s.aead, *a), (AeadId::Aes256, AeadId::ChaCha) | (AeadId::ChaCha, AeadId::Aes256));
        }
        Pert::RecipientKey => {
            let mut ikm = sess.ikm_r.0.clone();
            ikm.push(0x5a);
            let (sk2, pk2) = r::derive_key_pair(suite_s.kem, &ikm);
            if pk2 == keys.pk_r {
                return Verdict::skip("same recipient public key");
            }
            sk_r = sk2;
            minimal = false;
        }
        Pert::EncOther => {
            let mut rng = ScriptRng::new(&sess.stream[40..]);
            match d.setup_sender(&sess.mode_s(&keys), &keys.pk_r, &sess.info, &mut rng) {
                Ok((e2, _)) if e2 != enc => enc_r = e2,
                _ => return Verdict::skip("no second encapsulation"),
            }
            minimal = false;
        }
        Pert::EncSameDh => {
            let Some(e2) = same_dh_encoding(suite_s.kem, &enc) else { return Verdict::skip("no same-DH encoding") };
            enc_r = e2;
            minimal = true;
        }
        Pert::SenderKey => {
            if sess.mode & 2 == 0 {
                return Verdict::skip("sender key perturbation outside an Auth mode");
            }
            let mut ikm = sess.ikm_s.0.clone();
            ikm.push(0xa5);
            let pk2 = r::derive_key_pair(suite_s.kem, &ikm).1;
            if pk2 == keys.pk_s {
                return Verdict::skip("same sender public key");
            }
            mr.pk_s = Bytes(pk2);
            minimal = false;
        }
    }
    obs.nontrivial = minimal;
    let dr = suite::get(suite_r);
    let mut rcv = match dr.setup_receiver(&mr, &sk_r, &enc_r, &info) {
        Ok(r) => r,
        Err(Fail::Construct("psk_bundle", _)) => {
            obs.label("receiver-cannot-build-bundle");
            return Verdict::Pass;
        }
        Err(Fail::Hpke(_)) => {
            obs.label("receiver-setup-fails");
            return Verdict::Pass;
        }
        Err(f) => return construct_skip("perturbed receiver", &f),
    };
    obs.inner_checks += (probe.cts.len() * 2 + probe.exports.len()) as u64;
    match probe_disjoint(rcv.as_mut(), &probe, suite_r.aead.sealing()) {
        Ok(()) => Verdict::Pass,
        Err(shared) => Verdict::fail(
            format!("C07/shared-after/{}", pert_label(&case.pert)),
            format!(
                "sender {} mode {} vs receiver {} mode {} differing only in {:?}: {} (info {} -> {}, psk {} -> {}, psk_id {} -> {})",
                suite_s.label(), sess.mode, suite_r.label(), mr.mode, case.pert, shared,
                crate::util::hex_short(&sess.info), crate::util::hex_short(&info),
                crate::util::hex_short(&sess.psk), crate::util::hex_short(&mr.psk),
                crate::util::hex_short(&sess.psk_id), crate::util::hex_short(&mr.psk_id)
            ),
        ),
    }
}

fn byte_pert() -> BoxedStrategy<BytePert> {
    prop_oneof![
        4 => any::<u16>().prop_map(BytePert::FlipBit),
        1 => Just(BytePert::AppendZero),
        1 => Just(BytePert::PrependZero),
        1 => Just(BytePert::DropLast),
        1 => (any::<u16>(), any::<u16>()).prop_map(|(a, b)| BytePert::SwapTwo(a, b)),
        1 => Just(BytePert::ToggleEmpty),
    ]
    .boxed()
}

fn pert() -> BoxedStrategy<Pert> {
    prop_oneof![
        3 => byte_pert().prop_map(Pert::Info),
        3 => byte_pert().prop_map(Pert::Psk),
        3 => byte_pert().prop_map(Pert::PskId),
        1 => (1u8..4).prop_map(Pert::ShiftInfoToPskId),
        1 => (1u8..4).prop_map(Pert::ShiftPskIdToInfo),
        1 => (1u8..4).prop_map(Pert::ShiftPskToPskId),
        1 => (1u8..4).prop_map(Pert::ShiftPskIdToPsk),
        1 => Just(Pert::SwapPskAndId),
        3 => (0u8..4).prop_map(Pert::Mode),
        2 => gen::kdf().prop_map(Pert::Kdf),
        2 => proptest::sample::select(AeadId::ALL.to_vec()).prop_map(Pert::Aead),
        1 => Just(Pert::RecipientKey),
        1 => Just(Pert::EncOther),
        2 => Just(Pert::EncSameDh),
        1 => Just(Pert::SenderKey),
    ]
    .boxed()
}

impl Property for P {
    type Case = Case;
    fn id(&self) -> &'static str {
        "C07"
    }
    fn rule(&self) -> String {
        "Generated: a matched baseline session (48 suites x 4 modes) plus exactly one perturbation of the receiver: info/psk/psk_id {flip bit k, append/prepend 0x00, drop last, swap two bytes, empty<->non-empty}, boundary shifts of 1..3 bytes between info|psk_id and psk|psk_id, psk<->psk_id swapped, mode swapped with identical data (incl. Base<->Psk(empty bundle), Auth<->AuthPsk(empty bundle)), KDF swapped, AEAD swapped (incl. AES-256-GCM<->ChaCha20Poly1305 and sealing<->export-only), recipient key with a different public key, another valid enc, same-DH/different-bytes enc (NIST y->p-y, X25519 bit 255), different expected sender key. \
         Swept: every bit of info/psk/psk_id (<=24-byte strings) in Psk mode per KEM; all KDF x AEAD swaps per KEM; all 12 mode swaps per KEM; same-DH enc for every KEM x mode; every length 1..=1500 (every 5th up to 2600, and 17 lengths just above the page/chunk sizes 4 KiB..128 KiB) of info, psk and psk_id with the receiver's copy differing only at its end (last bit, one byte fewer, one zero byte more). \
         Oracle: the perturbed receiver fails setup, or opens none of 3 sender ciphertexts (tried at position 0 and at the matching position) and every one of 3 exports (L>=16) differs; positive control first. \
         Non-trivial: minimal perturbations (single bit/byte, boundary shift, field swap, mode swap, same-DH enc, equal-size AEAD swap)."
            .into()
    }
    fn assumptions(&self) -> Vec<String> {
        vec!["'share no key material' is observed through open failures and export inequality; a 2^-128 coincidence is ignored".into()]
    }
    fn strategy(&self, _tier: Tier) -> BoxedStrategy<Case> {
        // bias towards PSK modes for the psk perturbations: mode is drawn with the perturbation
        (gen::session_any(), pert(), 0u8..4)
            .prop_map(|(mut sess, pert, m2)| {
                match &pert {
                    Pert::Psk(_) | Pert::PskId(_) | Pert::ShiftInfoToPskId(_) | Pert::ShiftPskIdToInfo(_) | Pert::ShiftPskToPskId(_) | Pert::ShiftPskIdToPsk(_) | Pert::SwapPskAndId => sess.mode |= 1,
                    Pert::SenderKey => sess.mode |= 2,
                    _ => {}
                }
                let _ = m2;
                Case { sess, pert }
            })
            .boxed()
    }
    fn cases(&self, tier: Tier) -> u32 {
        tier.pick(15000, 150000)
    }
    fn sweeps(&self, _tier: Tier) -> Vec<(String, Vec<Case>)> {
        let mut bits = Vec::new();
        let mut swaps = Vec::new();
        let mut modes = Vec::new();
        let mut samedh = Vec::new();
        for kem in KemId::ALL {
            let s = Suite { kem, kdf: KdfId::Sha256, aead: AeadId::ChaCha };
            // every bit of info / psk / psk_id, PSK and AuthPsk alternating
            let mut sess = gen::cell_session(s, 1, 7);
            sess.info = Bytes(gen::fill(8, 5, 70));
            sess.psk = Bytes(gen::fill(8, 5, 71));
            sess.psk_id = Bytes(gen::fill(8, 5, 72));
            for field in 0..3 {
                for bit in 0..64u32 {
                    // FlipBit maps k*len*8 >> 16 -> choose k so that it lands on `bit`
                    let k = (((bit as u64) << 16) / 64 + 1) as u16;
                    let bp = BytePert::FlipBit(k);
                    let pert = match field {
                        0 => Pert::Info(bp),
                        1 => Pert::Psk(bp),
                        _ => Pert::PskId(bp),
                    };
                    let mut se = sess.clone();
                    se.mode = if bit % 2 == 0 { 1 } else { 3 };
                    bits.push(Case { sess: se, pert });
                }
            }
            for kdf in KdfId::ALL {
                for aead in AeadId::ALL {
                    let base = Suite { kem, kdf, aead };
                    for k2 in KdfId::ALL {
                        if k2 != kdf {
                            swaps.push(Case { sess: gen::cell_session(base, 0, 8), pert: Pert::Kdf(k2) });
                        }
                    }
                    for a2 in AeadId::ALL {
                        if a2 != aead {
                            swaps.push(Case { sess: gen::cell_session(base, 1, 8), pert: Pert::Aead(a2) });
                        }
                    }
                }
            }
            for m in 0..4u8 {
                for m2 in 0..4u8 {
                    if m != m2 {
                        modes.push(Case { sess: gen::cell_session(s, m, 9), pert: Pert::Mode(m2) });
                        // the same with the empty bundle on the PSK side
                        let mut e = gen::cell_session(s, m, 10);
                        e.psk = Bytes::default();
                        e.psk_id = Bytes::default();
                        modes.push(Case { sess: e, pert: Pert::Mode(m2) });
                    }
                }
                samedh.push(Case { sess: gen::cell_session(s, m, 11), pert: Pert::EncSameDh });
                samedh.push(Case { sess: gen::cell_session(s, m, 11), pert: Pert::EncOther });
                samedh.push(Case { sess: gen::cell_session(s, m, 11), pert: Pert::RecipientKey });
            }
        }
        // every length 1..=1500 (then every 5th up to 2600, then lengths just above every plausible chunk
        // or page size up to 128 KiB: input fed to the hash in pieces loses its remainder) of info, psk and psk_id, the receiver's copy
        // differing at the very end (last bit / one byte fewer / one zero byte more): a key schedule
        // that silently hashes only a prefix of a long input makes the two sides agree
        let mut tails = Vec::new();
        for l in (1..=1500usize).chain((1505..=2600).step_by(5)).chain([4095usize, 4096, 4097, 4098, 5000, 8191, 8193, 10000, 12289, 16385, 20000, 32769, 40001, 65535, 65537, 70001, 131073]) {
            let s = Suite { kem: KemId::X25519, kdf: KdfId::ALL[l % 3], aead: if l % 7 == 0 { AeadId::Export } else { AeadId::ChaCha } };
            let bp = match l % 3 {
                0 => BytePert::AppendZero,
                1 => BytePert::FlipBit(65535),
                _ => BytePert::DropLast,
            };
            let mut a = gen::cell_session(s, (l % 4) as u8, 12);
            a.info = Bytes(gen::fill(l, 5, 120 + l as u64));
            tails.push(Case { sess: a, pert: Pert::Info(bp.clone()) });
            let mut b = gen::cell_session(s, 1 + 2 * (l % 2) as u8, 13);
            b.psk = Bytes(gen::fill(l, 5, 130 + l as u64));
            tails.push(Case { sess: b, pert: Pert::Psk(bp.clone()) });
            let mut c = gen::cell_session(s, 1 + 2 * ((l + 1) % 2) as u8, 14);
            c.psk_id = Bytes(gen::fill(l, 5, 140 + l as u64));
            tails.push(Case { sess: c, pert: Pert::PskId(bp) });
        }
        vec![
            ("every_length_of_info_psk_pskid_with_a_difference_at_the_end".into(), tails),
            ("every_bit_of_info_psk_pskid".into(), bits),
            ("kdf_and_aead_swaps".into(), swaps),
            ("mode_swaps_identical_data".into(), modes),
            ("enc_and_recipient_key".into(), samedh),
        ]
    }
    fn check(&self, case: &Case, obs: &mut Obs) -> Verdict {
        check(case, obs)
    }
}
