//! C12 - serialisation is a fixed-size, canonical, lossless bijection.

use super::c09;
use crate::engine::{catch, Obs, Property, Tier, Verdict};
use crate::ensure;
use crate::gen;
use crate::refmodel::arith::X25519;
use crate::refmodel::hpke_ref::{self as r, AeadId, KdfId, KemId, Suite};
use crate::suite::{self, DynSuite, ScriptRng, SerKind};
use crate::util::{hex_short, Bytes};
use hpke::HpkeError;
use proptest::prelude::*;
use serde::{Deserialize, Serialize};

#[derive(Clone, Debug, Serialize, Deserialize)]
pub enum Op {
    /// a value obtained from the library (derive_keypair / encap / seal) round-trips
    Derived { ikm: Bytes },
    /// arbitrary bytes of the right length: accepted ones re-serialise identically
    Accepted { bytes: Bytes },
    /// input of a given length (content from the seed): IncorrectInputLength(size, len) unless len == size
    FromLen { len: usize, seed: u64 },
    /// write_exact into a buffer of `buflen` bytes panics iff buflen != size
    WriteExact { ikm: Bytes, buflen: usize },
    /// two right-length inputs, the second derived from the first by `edit` (0 two bytes swapped,
    /// 1 the same bit flipped in two bytes, 2 one byte copied over another, 3 three bytes XORed with
    /// masks that cancel, 4 one bit flipped, 5 unrelated second value from `seed`): when both are
    /// accepted, the values are equal exactly when their serialisations are (bijection)
    Pair { a: Bytes, edit: u8, i: u16, j: u16, seed: u64 },
}

#[derive(Clone, Debug, Serialize, Deserialize)]
pub struct Case {
    pub kem: KemId,
    pub aead: AeadId,
    pub kind: SerKind,
    pub op: Op,
}

pub struct P;

/// RFC 9180 section 7 size table
pub fn rfc_size(kem: KemId, aead: AeadId, kind: SerKind) -> usize {
    match kind {
        SerKind::Pk => kem.npk(),
        SerKind::Sk => kem.nsk(),
        SerKind::Enc => kem.nenc(),
        SerKind::Tag => aead.nt(),
    }
}

fn row(kem: KemId, aead: AeadId) -> &'static dyn DynSuite {
    suite::get(Suite { kem, kdf: KdfId::Sha256, aead })
}

/// A library-produced value of the given kind, as bytes
fn derived_value(d: &dyn DynSuite, kem: KemId, aead: AeadId, kind: SerKind, ikm: &[u8]) -> Result<Vec<u8>, Verdict> {
    let (sk, pk) = d.derive_keypair(ikm);
    Ok(match kind {
        SerKind::Pk => pk,
        SerKind::Sk => sk,
        SerKind::Enc => {
            let stream = gen::fill(160, 9, ikm.len() as u64 + ikm.first().copied().unwrap_or(0) as u64);
            let mut rng = ScriptRng::new(&stream);
            d.encap(&pk, None, &mut rng).map_err(|f| Verdict::skip(format!("construction_failed(encap:{:?})", f)))?.1
        }
        SerKind::Tag => {
            if !aead.sealing() {
                return Ok(vec![]);
            }
            let sess = gen::cell_session(Suite { kem, kdf: KdfId::Sha256, aead }, 0, 12);
            let keys = sess.keys();
            let mut rng = ScriptRng::new(&sess.stream);
            let (_, mut snd) = d
                .setup_sender(&sess.mode_s(&keys), &keys.pk_r, &sess.info, &mut rng)
                .map_err(|f| Verdict::skip(format!("construction_failed(setup:{:?})", f)))?;
            let mut buf = ikm.to_vec();
            snd.seal_in_place(&mut buf, b"").map_err(|e| Verdict::skip(format!("construction_failed(seal:{:?})", e)))?
        }
    })
}

fn same_up_to_clamping(kem: KemId, kind: SerKind, a: &[u8], b: &[u8]) -> bool {
    if kem == KemId::X25519 && kind == SerKind::Sk && a.len() == 32 && b.len() == 32 {
        X25519::clamp(a) == X25519::clamp(b)
    } else {
        a == b
    }
}

fn check(case: &Case, obs: &mut Obs) -> Verdict {
    let (kem, aead, kind) = (case.kem, case.aead, case.kind);
    let d = row(kem, aead);
    let ser = d.ser(kind);
    let size = rfc_size(kem, aead, kind);
    let tname = if kind == SerKind::Tag { format!("tag:{}", aead.name()) } else { format!("{}:{:?}", kem.name(), kind) };
    obs.label(tname.clone());
    obs.inner_checks += 1;
    ensure!(ser.size() == size, "C12/size", "{}: size() is {} but the RFC 9180 size is {}", tname, ser.size(), size);
    let default_type = matches!(kem, KemId::X25519 | KemId::P256) && kind != SerKind::Tag;
    match &case.op {
        Op::Derived { ikm } => {
            obs.label("op:derived");
            obs.nontrivial = !default_type;
            let v = match derived_value(d, kem, aead, kind, ikm) {
                Ok(v) => v,
                Err(x) => return x,
            };
            ensure!(v.len() == size, "C12/to_bytes-length", "{}: to_bytes() of a library-produced value has {} bytes, the RFC size is {}", tname, v.len(), size);
            match ser.reserialize(&v) {
                Ok(v2) => ensure!(same_up_to_clamping(kem, kind, &v2, &v), "C12/roundtrip/bytes", "{}: from_bytes(to_bytes(v)).to_bytes() = {} differs from to_bytes(v) = {}", tname, hex_short(&v2), hex_short(&v)),
                Err(e) => return Verdict::fail("C12/roundtrip/rejected-own-output", format!("{}: from_bytes rejected the library's own serialisation {}: {:?}", tname, hex_short(&v), e)),
            }
            match ser.roundtrip_eq(&v) {
                Ok(Some(false)) => return Verdict::fail("C12/roundtrip/not-equal", format!("{}: deserialising the serialisation of a value gives a value that is not equal to it", tname)),
                Ok(_) => {}
                Err(e) => return Verdict::fail("C12/roundtrip/rejected-own-output", format!("{}: {:?}", tname, e)),
            }
            Verdict::Pass
        }
        Op::Accepted { bytes } => {
            obs.label("op:accepted-bytes");
            obs.nontrivial = !default_type;
            match ser.reserialize(bytes) {
                Ok(out) => {
                    obs.label("accepted");
                    ensure!(out.len() == size, "C12/to_bytes-length", "{}: to_bytes() has {} bytes, the RFC size is {}", tname, out.len(), size);
                    ensure!(
                        same_up_to_clamping(kem, kind, &out, bytes),
                        "C12/canonical/reserialize-differs",
                        "{}: accepted {} but re-serialised it as {}",
                        tname, hex_short(bytes), hex_short(&out)
                    );
                    if let Ok(Some(false)) = ser.roundtrip_eq(bytes) {
                        return Verdict::fail("C12/roundtrip/not-equal", format!("{}: value parsed from {} is not equal to the value parsed from its own serialisation", tname, hex_short(bytes)));
                    }
                    Verdict::Pass
                }
                Err(e) => {
                    obs.label("rejected");
                    let want = if bytes.len() != size { HpkeError::IncorrectInputLength(size, bytes.len()) } else { HpkeError::ValidationError };
                    ensure!(e == want, "C12/error-kind", "{}: {} bytes rejected with {:?}, expected {:?}", tname, bytes.len(), e, want);
                    // (whether a right-length string may be rejected is C09's / C10's question, not C12's:
                    // the property constrains what is accepted and how wrong lengths are reported)
                    Verdict::Pass
                }
            }
        }
        Op::FromLen { len, seed } => {
            obs.label("op:from-length");
            obs.nontrivial = *len != size;
            let mut b = gen::fill(*len, 9, *seed);
            if kind != SerKind::Sk && kind != SerKind::Tag && kem != KemId::X25519 && !b.is_empty() {
                b[0] = 4;
            }
            match ser.reserialize(&b) {
                Ok(out) => {
                    ensure!(*len == size, "C12/length/accepted-wrong-length", "{}: a {}-byte input was accepted, the size is {}", tname, len, size);
                    ensure!(same_up_to_clamping(kem, kind, &out, &b), "C12/canonical/reserialize-differs", "{}: accepted {} but re-serialised it as {}", tname, hex_short(&b), hex_short(&out));
                }
                Err(e) => {
                    if *len != size {
                        ensure!(
                            e == HpkeError::IncorrectInputLength(size, *len),
                            "C12/length/error-payload",
                            "{}: a {}-byte input was rejected with {:?}, expected IncorrectInputLength(expected={}, given={})",
                            tname, len, e, size, len
                        );
                    } else {
                        ensure!(e == HpkeError::ValidationError, "C12/error-kind", "{}: right-length input rejected with {:?}", tname, e);
                    }
                }
            }
            Verdict::Pass
        }
        Op::Pair { a, edit, i, j, seed } => {
            obs.label("op:pair");
            obs.label(format!("pair-edit:{}", edit % 6));
            obs.nontrivial = true;
            if a.len() != size || size < 3 {
                return Verdict::skip("pair needs right-length input");
            }
            let (i, j) = (crate::engine::pick_index(*i, size), crate::engine::pick_index(*j, size));
            let mut b = a.0.clone();
            match edit % 6 {
                0 => b.swap(i, j),
                1 => {
                    let m = 1u8 << (seed % 8);
                    b[i] ^= m;
                    if j != i {
                        b[j] ^= m;
                    }
                }
                2 => b[i] = b[j],
                3 => {
                    let k = (i + j + 1) % size;
                    if i != j && k != i && k != j {
                        let (m1, m2) = ((*seed as u8) | 1, ((*seed >> 8) as u8) | 2);
                        b[i] ^= m1;
                        b[j] ^= m2;
                        b[k] ^= m1 ^ m2;
                    } else {
                        b[i] ^= 0x10;
                    }
                }
                4 => b[i] ^= 1u8 << (seed % 8),
                _ => {
                    b = gen::fill(size, 9, *seed);
                    if kem != KemId::X25519 && matches!(kind, SerKind::Pk | SerKind::Enc) {
                        b[0] = 4;
                    }
                }
            }
            match ser.pair_eq(a, &b) {
                Err(_) => {
                    obs.label("pair:one-rejected");
                    Verdict::Pass
                }
                Ok((eq, ta, tb)) => {
                    obs.label("pair:both-accepted");
                    let Some(eq) = eq else { return Verdict::Pass };
                    if ta == tb {
                        ensure!(eq, "C12/eq/identical-serialisation-unequal-values", "{}: values parsed from {} and {} serialise identically but do not compare equal", tname, hex_short(a), hex_short(&b));
                    }
                    if eq {
                        ensure!(
                            same_up_to_clamping(kem, kind, &ta, &tb),
                            "C12/eq/distinct-serialisation-equal-values",
                            "{}: values parsed from {} and {} compare equal but serialise as {} and {} (serialisation is not injective on values)",
                            tname, hex_short(a), hex_short(&b), hex_short(&ta), hex_short(&tb)
                        );
                    }
                    Verdict::Pass
                }
            }
        }
        Op::WriteExact { ikm, buflen } => {
            obs.label("op:write-exact");
            obs.nontrivial = *buflen != size;
            let v = match derived_value(d, kem, aead, kind, ikm) {
                Ok(v) => v,
                Err(x) => return x,
            };
            if v.len() != size {
                return Verdict::skip("library value has the wrong size (reported by the Derived op)");
            }
            let res = catch(|| ser.write_exact(&v, *buflen));
            match res {
                Err(_) => ensure!(*buflen != size, "C12/write_exact/panicked-on-exact-buffer", "{}: write_exact panicked on a buffer of exactly {} bytes", tname, size),
                Ok(Ok(buf)) => {
                    ensure!(*buflen == size, "C12/write_exact/accepted-wrong-buffer", "{}: write_exact did not panic on a {}-byte buffer (size is {})", tname, buflen, size);
                    ensure!(same_up_to_clamping(kem, kind, &buf, &v), "C12/write_exact/content", "{}: write_exact wrote {} but to_bytes() is {}", tname, hex_short(&buf), hex_short(&v));
                }
                Ok(Err(e)) => return Verdict::skip(format!("construction_failed(reparse:{:?})", e)),
            }
            Verdict::Pass
        }
    }
}

fn all_types() -> Vec<(KemId, AeadId, SerKind)> {
    let mut v = Vec::new();
    for kem in KemId::ALL {
        for kind in [SerKind::Pk, SerKind::Sk, SerKind::Enc] {
            v.push((kem, AeadId::ChaCha, kind));
        }
    }
    for aead in AeadId::ALL {
        v.push((KemId::X25519, aead, SerKind::Tag));
    }
    v
}

impl Property for P {
    type Case = Case;
    fn id(&self) -> &'static str {
        "C12"
    }
    fn rule(&self) -> String {
        "Generated for the 16 serialisable types (4 KEMs x {public, private, encapsulated key} + 4 AEAD tag types): values from derive_keypair/encap/seal; accepted byte strings (C09's constructed NIST encodings, arbitrary 32 bytes for X25519, arbitrary Nt bytes for tags); inputs and write_exact buffers of every length. \
         Swept: every length 0..=2*size+2 for all 16 types, for from_bytes and for write_exact; every constructed NIST encoding of C09's vocabulary and 24 random right-length strings per type (whatever is accepted must re-serialise identically). \
         Oracle: size()/to_bytes().len() equal the RFC 9180 table; from_bytes(to_bytes(v)) == v (Eq for keys, bytes otherwise); for two accepted inputs (the second an edit of the first: bytes swapped, one bit flipped in two bytes, a byte copied, three cancelling masks, one bit, or unrelated) the values compare equal exactly when their serialisations are equal (X25519 private keys: equal values serialise to the same clamped scalar); to_bytes(from_bytes(b)) == b for accepted b (X25519 private key: up to clamping); wrong length => IncorrectInputLength(size, len); write_exact panics iff buf.len() != size and otherwise writes to_bytes(). \
         Non-trivial: a non-default curve or tag type, or a length != size."
            .into()
    }
    fn assumptions(&self) -> Vec<String> {
        vec!["write_exact's panic on a wrong-size buffer is documented behaviour and is observed under catch_unwind".into()]
    }
    fn strategy(&self, _tier: Tier) -> BoxedStrategy<Case> {
        let ty = proptest::sample::select(all_types());
        (ty, 0u8..6, gen::ikm(), any::<u64>(), any::<u16>(), 0usize..280)
            .prop_map(|((kem, aead, kind), which, ikm, seed, idx, len)| {
                let size = rfc_size(kem, aead, kind);
                let op = match which {
                    0 => Op::Derived { ikm },
                    1 => {
                        let bytes = if kem != KemId::X25519 && kind != SerKind::Tag {
                            let list = if kind == SerKind::Sk { c09::constructed_scalar(kem, seed) } else { c09::constructed_public(kem, seed) };
                            let list: Vec<_> = list.into_iter().filter(|(h, _)| !h.starts_with("tag-byte") && !h.starts_with("scalar:n-bitflip")).collect();
                            list[crate::engine::pick_index(idx, list.len())].1.clone()
                        } else {
                            gen::fill(size, (seed % 12) as u8, seed)
                        };
                        Op::Accepted { bytes: Bytes(bytes) }
                    }
                    2 => Op::FromLen { len: if len % 3 == 0 { size } else { len % (2 * size + 3) }, seed },
                    4 | 5 => {
                        // first value: a library-valid encoding (NIST public keys must be on the curve)
                        let a = if kem != KemId::X25519 && kind != SerKind::Tag {
                            let (sk, pk) = gen::ref_keypair(kem, &ikm);
                            if kind == SerKind::Sk { sk } else { pk }
                        } else {
                            gen::fill(size, 3 + (seed % 9) as u8, seed ^ 0x55)
                        };
                        Op::Pair { a: Bytes(a), edit: (seed >> 16) as u8, i: idx, j: (seed >> 32) as u16, seed }
                    }
                    _ => Op::WriteExact { ikm, buflen: if len % 3 == 0 { size } else { len % (2 * size + 3) } },
                };
                Case { kem, aead, kind, op }
            })
            .boxed()
    }
    fn cases(&self, tier: Tier) -> u32 {
        tier.pick(20000, 200000)
    }
    fn sweeps(&self, _tier: Tier) -> Vec<(String, Vec<Case>)> {
        let mut lens = Vec::new();
        let mut bufs = Vec::new();
        let mut derived = Vec::new();
        for (kem, aead, kind) in all_types() {
            let size = rfc_size(kem, aead, kind);
            for len in 0..=(2 * size + 2) {
                lens.push(Case { kem, aead, kind, op: Op::FromLen { len, seed: len as u64 } });
                bufs.push(Case { kem, aead, kind, op: Op::WriteExact { ikm: Bytes(gen::fill(32, 9, 12)), buflen: len } });
            }
            for s in 0..8u64 {
                derived.push(Case { kem, aead, kind, op: Op::Derived { ikm: Bytes(gen::fill(32 + s as usize, 9, s)) } });
            }
        }
        let _ = r::KemId::ALL;
        // every constructed NIST encoding (C09's vocabulary) and random right-length strings for all
        // 16 types: whatever is accepted must re-serialise to the same bytes
        let mut accepted = Vec::new();
        for kem in c09::NIST {
            for kind in [SerKind::Pk, SerKind::Enc] {
                for (_, b) in c09::constructed_public(kem, 12) {
                    accepted.push(Case { kem, aead: AeadId::ChaCha, kind, op: Op::Accepted { bytes: Bytes(b) } });
                }
            }
            for (_, b) in c09::constructed_scalar(kem, 12) {
                accepted.push(Case { kem, aead: AeadId::ChaCha, kind: SerKind::Sk, op: Op::Accepted { bytes: Bytes(b) } });
            }
        }
        for (kem, aead, kind) in all_types() {
            let size = rfc_size(kem, aead, kind);
            for s in 0..24u64 {
                let mut b = gen::fill(size, (s % 12) as u8, 1200 + s);
                if s % 2 == 0 && kem != KemId::X25519 && kind != SerKind::Tag && kind != SerKind::Sk && !b.is_empty() {
                    b[0] = 4;
                }
                accepted.push(Case { kem, aead, kind, op: Op::Accepted { bytes: Bytes(b) } });
            }
        }
        // every pair of positions swapped / doubly flipped in one right-length value per type
        let mut pairs = Vec::new();
        for (kem, aead, kind) in all_types() {
            let size = rfc_size(kem, aead, kind);
            let a = if kem != KemId::X25519 && kind != SerKind::Tag {
                let (sk, pk) = gen::ref_keypair(kem, &gen::fill(kem.nsk(), 9, 1212));
                if kind == SerKind::Sk { sk } else { pk }
            } else {
                gen::fill(size, 9, 1213)
            };
            let step = (size / 16).max(1);
            for i in (0..size).step_by(step) {
                for j in (0..size).step_by(step) {
                    if i < j {
                        let (pi, pj) = (((i * 65536 + 65535) / size) as u16, ((j * 65536 + 65535) / size) as u16);
                        for edit in 0..4u8 {
                            pairs.push(Case { kem, aead, kind, op: Op::Pair { a: Bytes(a.clone()), edit, i: pi, j: pj, seed: (i * 7 + j) as u64 } });
                        }
                    }
                }
            }
        }
        vec![("position_pairs_edited_in_one_value".into(), pairs), ("derived_values".into(), derived), ("constructed_and_random_right_length_inputs".into(), accepted), ("from_bytes_every_length".into(), lens), ("write_exact_every_buffer_length".into(), bufs)]
    }
    fn check(&self, case: &Case, obs: &mut Obs) -> Verdict {
        check(case, obs)
    }
}
