//! C09 - NIST-curve keys are accepted only if valid, canonical and in range. The validity predicate
//! is computed by the harness's own big-integer arithmetic.

use crate::engine::{pick_index, Obs, Property, Tier, Verdict};
use crate::gen;
use crate::refmodel::arith::{add_plain, from_be, sub_plain, to_be, Curve};
use crate::refmodel::hpke_ref::{self as r, KemId};
use crate::suite::{self, SerKind};
use crate::util::{hex_short, mix, Bytes};
use hpke::HpkeError;
use proptest::prelude::*;
use serde::{Deserialize, Serialize};

#[derive(Clone, Debug, Serialize, Deserialize)]
pub struct Case {
    pub kem: KemId,
    pub kind: SerKind,
    /// how the bytes were constructed (for the reader; the oracle only looks at the bytes)
    pub how: String,
    pub bytes: Bytes,
}

pub struct P;

pub const NIST: [KemId; 3] = [KemId::P256, KemId::P384, KemId::P521];

/// The property's predicate, from the harness's own arithmetic
pub fn valid(kem: KemId, kind: SerKind, b: &[u8]) -> bool {
    let c = kem.curve().expect("NIST curve");
    match kind {
        SerKind::Pk | SerKind::Enc => c.valid_public(b),
        SerKind::Sk => c.valid_scalar(b),
        SerKind::Tag => unreachable!(),
    }
}

pub fn expected_size(kem: KemId, kind: SerKind) -> usize {
    match kind {
        SerKind::Pk => kem.npk(),
        SerKind::Enc => kem.nenc(),
        SerKind::Sk => kem.nsk(),
        SerKind::Tag => 16,
    }
}

pub fn check_case(case: &Case, obs: &mut Obs) -> Verdict {
    let d = suite::get_kem(case.kem);
    let ser = d.ser(case.kind);
    let size = expected_size(case.kem, case.kind);
    let b = &case.bytes.0;
    let want = valid(case.kem, case.kind, b);
    obs.label(format!("{}:{:?}", case.kem.name(), case.kind));
    obs.label(format!("how:{}", case.how.split(':').next().unwrap_or("")));
    obs.label(if want { "oracle:valid" } else { "oracle:invalid" });
    obs.nontrivial = b.len() == size && !case.how.starts_with("honest");
    obs.inner_checks += 1;
    let got = ser.reserialize(b);
    let cls = format!("{:?}", case.kind).to_lowercase();
    match (want, got) {
        (true, Ok(out)) => {
            if &out != b {
                return Verdict::fail(format!("C09/{}/reserialize-differs", cls), format!("{} {:?} ({}): accepted {} but re-serialises to {}", case.kem.name(), case.kind, case.how, hex_short(b), hex_short(&out)));
            }
            Verdict::Pass
        }
        (true, Err(e)) => Verdict::fail(format!("C09/{}/rejected-valid", cls), format!("{} {:?} ({}): a valid encoding {} was rejected with {:?}", case.kem.name(), case.kind, case.how, hex_short(b), e)),
        (false, Ok(_)) => Verdict::fail(
            format!("C09/{}/accepted-invalid", cls),
            format!("{} {:?} ({}): {} ({} bytes) was accepted although it is not a valid, canonical, in-range encoding", case.kem.name(), case.kind, case.how, hex_short(b), b.len()),
        ),
        (false, Err(e)) => {
            let want_err = if b.len() != size { HpkeError::IncorrectInputLength(size, b.len()) } else { HpkeError::ValidationError };
            if e != want_err {
                return Verdict::fail(format!("C09/{}/error-kind", cls), format!("{} {:?} ({}): {} bytes rejected with {:?}, expected {:?}", case.kem.name(), case.kind, case.how, b.len(), e, want_err));
            }
            Verdict::Pass
        }
    }
}

fn fe(c: &Curve, seed: u64) -> Vec<u64> {
    // a pseudo-random field element < p
    let bytes = gen::fill(c.fb, 9, seed);
    let mut x = from_be(&bytes, c.k());
    if c.id == crate::refmodel::arith::CurveId::P521 {
        let k = c.k();
        x[k - 1] &= 0x1ff;
    }
    while crate::refmodel::arith::cmp(&x, &c.p) != std::cmp::Ordering::Less {
        x = sub_plain(&x, &c.p).0;
    }
    x
}

fn enc(c: &Curve, tag: u8, x: &[u64], y: &[u64]) -> Vec<u8> {
    let mut v = vec![tag];
    v.extend_from_slice(&to_be(x, c.fb));
    v.extend_from_slice(&to_be(y, c.fb));
    v
}

/// A valid point from a seed (by lifting pseudo-random x values until one is on the curve)
pub fn point_from_seed(c: &Curve, seed: u64) -> (Vec<u64>, Vec<u64>) {
    let mut s = seed;
    loop {
        let x = fe(c, s);
        if let Some(y) = c.lift_x(&x) {
            return (x, y);
        }
        s = mix(s);
    }
}

/// A valid point with a small x (so that x + p still fits in the field width for P-256/P-384)
fn small_x_point(c: &Curve, start: u64) -> (Vec<u64>, Vec<u64>) {
    let mut xv = start % 4096;
    loop {
        let mut x = vec![0u64; c.k()];
        x[0] = xv;
        if let Some(y) = c.lift_x(&x) {
            return (x, y);
        }
        xv += 1;
    }
}

fn corner_values(c: &Curve) -> Vec<(&'static str, Vec<u64>, bool)> {
    // (name, value, fits in fb bytes)
    let k = c.k();
    let one = {
        let mut o = vec![0u64; k];
        o[0] = 1;
        o
    };
    let zero = vec![0u64; k];
    let pm1 = sub_plain(&c.p, &one).0;
    let pp1 = add_plain(&c.p, &one).0;
    let all = from_be(&vec![0xffu8; c.fb], k);
    vec![("0", zero, true), ("1", one, true), ("p-1", pm1, true), ("p", c.p.clone(), true), ("p+1", pp1, true), ("2^8k-1", all, true)]
}

/// Constructed public-key-shaped inputs: (how, bytes)
pub fn constructed_public(kem: KemId, seed: u64) -> Vec<(String, Vec<u8>)> {
    let c = kem.curve().unwrap();
    let mut out = Vec::new();
    let (x, y) = point_from_seed(c, seed);
    let good = enc(c, 4, &x, &y);
    out.push(("honest:random-point".to_string(), good.clone()));
    let negy = sub_plain(&c.p, &y).0;
    out.push(("negated-point".to_string(), enc(c, 4, &x, &negy)));
    // every other tag byte on a valid body
    for t in 0..=255u8 {
        if t != 4 {
            let mut b = good.clone();
            b[0] = t;
            out.push((format!("tag-byte:{:#04x}", t), b));
        }
    }
    // compressed / compact / identity / hybrid forms of the real point
    let xb = to_be(&x, c.fb);
    let parity = (y[0] & 1) as u8;
    for (name, t) in [("compressed", 2 + parity), ("compressed-wrong-parity", 3 - parity), ("compact", 5)] {
        let mut b = vec![t];
        b.extend_from_slice(&xb);
        out.push((format!("{}:short", name), b.clone()));
        // padded to full length
        b.resize(1 + 2 * c.fb, 0);
        out.push((format!("{}:zero-padded", name), b));
    }
    out.push(("identity:one-byte".into(), vec![0]));
    out.push(("identity:padded".into(), vec![0u8; 1 + 2 * c.fb]));
    for t in [6u8, 7u8] {
        out.push((format!("hybrid:{}", t), enc(c, t, &x, &y)));
    }
    // off-curve: random (x, y), y+1, x+1, swapped
    let y2 = fe(c, seed ^ 0x77);
    out.push(("off-curve:random-y".into(), enc(c, 4, &x, &y2)));
    out.push(("off-curve:swapped-xy".into(), enc(c, 4, &y, &x)));
    // a point of the curve with a different b (same field): (x, y') with y'^2 = x^3 - 3x + b + 1
    {
        let f = &c.fp;
        let xm = f.to_mont(&x);
        let rhs = f.add(&c.rhs(&xm), &f.one);
        if let Some(yp) = f.sqrt_3mod4(&rhs) {
            out.push(("off-curve:different-b".into(), enc(c, 4, &x, &f.from_mont(&yp))));
        }
        // twist-like: a y for which -rhs is a square
        let nrhs = f.neg(&c.rhs(&xm));
        if let Some(yp) = f.sqrt_3mod4(&nrhs) {
            out.push(("off-curve:twist".into(), enc(c, 4, &x, &f.from_mont(&yp))));
        }
    }
    // non-canonical coordinates: x + p, y + p where they fit
    let (sx, sy) = small_x_point(c, seed);
    out.push(("honest:small-x-point".into(), enc(c, 4, &sx, &sy)));
    let (xpp, cx) = add_plain(&sx, &c.p);
    if cx == 0 && crate::refmodel::arith::bitlen(&xpp) <= 8 * c.fb {
        out.push(("non-canonical:x+p".into(), enc(c, 4, &xpp, &sy)));
    }
    let (ypp, cy) = add_plain(&y, &c.p);
    if cy == 0 && crate::refmodel::arith::bitlen(&ypp) <= 8 * c.fb {
        out.push(("non-canonical:y+p".into(), enc(c, 4, &x, &ypp)));
    }
    let (sypp, cy2) = add_plain(&sy, &c.p);
    if cy2 == 0 && crate::refmodel::arith::bitlen(&sypp) <= 8 * c.fb {
        out.push(("non-canonical:small-x,y+p".into(), enc(c, 4, &sx, &sypp)));
    }
    if kem == KemId::P521 {
        // bits above 2^521 set in the top byte
        let mut b = good.clone();
        b[1] |= 0x02;
        out.push(("non-canonical:x|2^521".into(), b));
        let mut b = good.clone();
        b[1 + c.fb] |= 0x80;
        out.push(("non-canonical:y|2^527".into(), b));
    }
    // corner coordinate values
    for (nx, vx, _) in corner_values(c) {
        for (ny, vy, _) in corner_values(c) {
            out.push((format!("corner:x={},y={}", nx, ny), enc(c, 4, &vx, &vy)));
        }
        // corner x with its lifted y when it exists (x = 0 has a point on these curves iff b is a square)
        if crate::refmodel::arith::cmp(&vx, &c.p) == std::cmp::Ordering::Less {
            if let Some(ly) = c.lift_x(&vx) {
                out.push((format!("corner-on-curve:x={}", nx), enc(c, 4, &vx, &ly)));
            }
        }
    }
    out
}

pub fn constructed_scalar(kem: KemId, seed: u64) -> Vec<(String, Vec<u8>)> {
    let c = kem.curve().unwrap();
    let k = c.k();
    let mut out = Vec::new();
    let one = {
        let mut o = vec![0u64; k];
        o[0] = 1;
        o
    };
    let nm1 = sub_plain(&c.n, &one).0;
    let np1 = add_plain(&c.n, &one).0;
    let two = add_plain(&one, &one).0;
    let nm2 = sub_plain(&c.n, &two).0;
    for (name, v) in [("0", vec![0u64; k]), ("1", one.clone()), ("2", two), ("n-2", nm2), ("n-1", nm1), ("n", c.n.clone()), ("n+1", np1), ("p", c.p.clone())] {
        out.push((format!("scalar:{}", name), to_be(&v, c.fb)));
    }
    out.push(("scalar:all-ff".into(), vec![0xffu8; c.fb]));
    if kem == KemId::P521 {
        let mut b = vec![0u8; c.fb];
        b[0] = 0x02;
        out.push(("scalar:2^521".into(), b));
        let mut b = to_be(&one, c.fb);
        b[0] = 0x80;
        out.push(("scalar:1|2^527".into(), b));
    }
    let (sk, _) = r::derive_key_pair(kem, &seed.to_le_bytes());
    out.push(("honest:derived".into(), sk));
    out.push(("scalar:random".into(), gen::fill(c.fb, 9, seed)));
    // single-bit flips of n
    let nb = to_be(&c.n, c.fb);
    for bit in 0..(8 * c.fb) {
        let mut b = nb.clone();
        b[bit / 8] ^= 1 << (bit % 8);
        out.push((format!("scalar:n-bitflip:{}", bit), b));
    }
    out
}

fn length_cases(kem: KemId, kind: SerKind) -> Vec<Case> {
    let size = expected_size(kem, kind);
    let valid_bytes = match kind {
        SerKind::Sk => r::derive_key_pair(kem, b"c09-lengths").0,
        _ => r::derive_key_pair(kem, b"c09-lengths").1,
    };
    let mut out = Vec::new();
    for len in 0..=(2 * size + 2) {
        // prefix of / zero-padded / random-padded valid encoding
        let mut a = valid_bytes.clone();
        a.resize(len, 0);
        out.push(Case { kem, kind, how: format!("length:{}:valid-prefix-or-zero-padded", len), bytes: Bytes(a) });
        let mut b = valid_bytes.clone();
        if len > b.len() {
            b.extend(gen::fill(len - b.len(), 9, len as u64));
        } else {
            b.truncate(len);
        }
        out.push(Case { kem, kind, how: format!("length:{}:random-padded", len), bytes: Bytes(b) });
        // leading zero byte inserted (a "longer big-endian integer" with the same value)
        let mut c2 = vec![0u8];
        c2.extend_from_slice(&valid_bytes);
        c2.resize(len, 0);
        out.push(Case { kem, kind, how: format!("length:{}:leading-zero", len), bytes: Bytes(c2) });
    }
    out
}

impl Property for P {
    type Case = Case;
    fn id(&self) -> &'static str {
        "C09"
    }
    fn rule(&self) -> String {
        "Generated by construction for 3 curves x {public, encapsulated, private key}: valid points (derived, lifted from random and from small x), negated points, every tag byte on a valid body, compressed/compact/identity/hybrid forms (short and padded), off-curve points (random y, swapped, different-b curve, twist), non-canonical coordinates (x+p, y+p, bits above 2^521), all 36 corner coordinate pairs {0,1,p-1,p,p+1,2^8k-1}^2, single-bit flips of valid encodings, random bytes; scalars 0,1,2,n-2,n-1,n,n+1,p,all-ff,2^521,random,every bit flip of n; every length 0..=2*size+2 (prefix/zero-padded/random-padded/leading-zero). \
         Oracle: from_bytes succeeds iff the harness's own predicate holds (length, tag 0x04, x<p, y<p, y^2=x^3-3x+b; 1<=s<n); rejection is IncorrectInputLength(expected, given) exactly when the length is wrong, else ValidationError; accepted bytes re-serialise identically. \
         Non-trivial: correct-length inputs (validation reached) that are not honest keys."
            .into()
    }
    fn assumptions(&self) -> Vec<String> {
        vec!["the arithmetic oracle is self-checked at start-up (G on curve, n*G=O, constants equal corpus/curves.json)".into()]
    }
    fn prelude(&self, _tier: Tier) -> Result<Vec<String>, String> {
        crate::refmodel::selfcheck::arithmetic_selfcheck().map(|_| vec![])
    }
    fn strategy(&self, _tier: Tier) -> BoxedStrategy<Case> {
        let kem = proptest::sample::select(NIST.to_vec());
        let kind = proptest::sample::select(vec![SerKind::Pk, SerKind::Enc, SerKind::Sk]);
        (kem, kind, any::<u64>(), any::<u16>(), 0u8..6, any::<u16>())
            .prop_map(|(kem, kind, seed, idx, variant, bit)| {
                let list = match kind {
                    SerKind::Sk => constructed_scalar(kem, seed),
                    _ => constructed_public(kem, seed),
                };
                // the 255 tag-byte entries and the per-bit flips of n would otherwise dominate
                let list: Vec<(String, Vec<u8>)> = if variant >= 3 { list.into_iter().filter(|(h, _)| !h.starts_with("tag-byte") && !h.starts_with("scalar:n-bitflip")).collect() } else { list };
                let (how, mut bytes) = list[pick_index(idx, list.len())].clone();
                let how = match variant {
                    0 if !bytes.is_empty() => {
                        // a single-bit flip on top of the construction
                        let b = pick_index(bit, bytes.len() * 8);
                        bytes[b / 8] ^= 1 << (b % 8);
                        format!("bitflip:{}:of:{}", b, how)
                    }
                    1 => {
                        bytes = gen::fill(expected_size(kem, kind), 9, seed);
                        if kind != SerKind::Sk {
                            bytes[0] = 4;
                        }
                        "random-bytes".to_string()
                    }
                    _ => how,
                };
                Case { kem, kind, how, bytes: Bytes(bytes) }
            })
            .boxed()
    }
    fn cases(&self, tier: Tier) -> u32 {
        tier.pick(30000, 300000)
    }
    fn sweeps(&self, _tier: Tier) -> Vec<(String, Vec<Case>)> {
        let mut constructed = Vec::new();
        let mut lengths = Vec::new();
        for kem in NIST {
            for kind in [SerKind::Pk, SerKind::Enc] {
                for seed in [1u64, 2] {
                    for (how, bytes) in constructed_public(kem, seed) {
                        constructed.push(Case { kem, kind, how, bytes: Bytes(bytes) });
                    }
                }
                lengths.extend(length_cases(kem, kind));
            }
            for (how, bytes) in constructed_scalar(kem, 3) {
                constructed.push(Case { kem, kind: SerKind::Sk, how, bytes: Bytes(bytes) });
            }
            lengths.extend(length_cases(kem, SerKind::Sk));
        }
        vec![("constructed_encodings".into(), constructed), ("every_length_0_to_2size_plus_2".into(), lengths)]
    }
    fn check(&self, case: &Case, obs: &mut Obs) -> Verdict {
        if case.kem == KemId::X25519 || case.kind == SerKind::Tag {
            return Verdict::skip("not a NIST key");
        }
        check_case(case, obs)
    }
}
