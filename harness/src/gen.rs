//! Shared generator vocabulary: edge-biased byte strings, suites, modes, sessions. Construction,
//! never rejection. Every random choice is a proptest strategy so shrinking and replay work.

use crate::refmodel::hpke_ref::{self as r, AeadId, KdfId, KemId, Suite};
use crate::suite::{ModeR, ModeS};
use crate::util::{mix, Bytes};
use proptest::prelude::*;
use proptest::sample::select;
use serde::{Deserialize, Serialize};

pub const EDGE_LENS: [usize; 25] = [
    0, 1, 15, 16, 17, 31, 32, 33, 47, 48, 49, 63, 64, 65, 127, 128, 129, 255, 256, 257, 1023, 1024, 4095, 4096, 4097,
];

/// Deterministic content for a (len, kind, seed) triple. kind 0 zeros, 1 0xff, 2 periodic, else random.
pub fn fill(len: usize, kind: u8, seed: u64) -> Vec<u8> {
    match kind {
        0 => vec![0u8; len],
        1 => vec![0xffu8; len],
        2 => {
            let period = 1 + (seed % 7) as usize;
            (0..len).map(|i| ((i % period) as u8).wrapping_add((seed >> 8) as u8)).collect()
        }
        _ => {
            let mut out = Vec::with_capacity(len + 8);
            let mut s = seed;
            while out.len() < len {
                s = mix(s);
                out.extend_from_slice(&s.to_le_bytes());
            }
            out.truncate(len);
            out
        }
    }
}

fn len_strategy(min: usize, max: usize) -> BoxedStrategy<usize> {
    let edges: Vec<usize> = EDGE_LENS.iter().copied().filter(|&l| l >= min && l <= max).collect();
    let small_hi = max.min(80).max(min);
    if edges.is_empty() {
        return (min..=max).boxed();
    }
    prop_oneof![
        5 => min..=small_hi,
        3 => select(edges),
        1 => min..=max,
    ]
    .boxed()
}

/// Edge-biased byte string with length in min..=max
pub fn bytes_range(min: usize, max: usize) -> BoxedStrategy<Bytes> {
    (len_strategy(min, max), 0u8..9, any::<u64>()).prop_map(|(l, k, s)| Bytes(fill(l, k, s))).boxed()
}

pub fn bytes(max: usize) -> BoxedStrategy<Bytes> {
    bytes_range(0, max)
}

/// Exactly `len` bytes, mostly random content
pub fn bytes_exact(len: usize) -> BoxedStrategy<Bytes> {
    (0u8..12, any::<u64>()).prop_map(move |(k, s)| Bytes(fill(len, k, s))).boxed()
}

/// Input keying material: any length 0..=300, biased towards the key sizes
pub fn ikm() -> BoxedStrategy<Bytes> {
    let len = prop_oneof![
        6 => select(vec![32usize, 48, 66]),
        3 => 0usize..=80,
        1 => 0usize..=300,
    ];
    (len, 3u8..12, any::<u64>()).prop_map(|(l, k, s)| Bytes(fill(l, k, s))).boxed()
}

/// A stream for the scripted RNG: 160 bytes, enough for two draws of any Nsk
pub fn stream() -> BoxedStrategy<Bytes> {
    (3u8..12, any::<u64>()).prop_map(|(k, s)| Bytes(fill(160, k, s))).boxed()
}

pub fn kem() -> BoxedStrategy<KemId> {
    prop_oneof![
        8 => Just(KemId::X25519),
        6 => Just(KemId::P256),
        3 => Just(KemId::P384),
        3 => Just(KemId::P521),
    ]
    .boxed()
}

/// KEM strategy for expensive per-case work (fresh receivers per variant)
pub fn kem_cheap() -> BoxedStrategy<KemId> {
    prop_oneof![
        12 => Just(KemId::X25519),
        5 => Just(KemId::P256),
        1 => Just(KemId::P384),
        1 => Just(KemId::P521),
    ]
    .boxed()
}

pub fn kdf() -> BoxedStrategy<KdfId> {
    select(KdfId::ALL.to_vec()).boxed()
}

pub fn aead_any() -> BoxedStrategy<AeadId> {
    prop_oneof![
        3 => Just(AeadId::Aes128),
        3 => Just(AeadId::Aes256),
        3 => Just(AeadId::ChaCha),
        1 => Just(AeadId::Export),
    ]
    .boxed()
}

pub fn aead_sealing() -> BoxedStrategy<AeadId> {
    select(AeadId::SEALING.to_vec()).boxed()
}

pub fn suite_any() -> BoxedStrategy<Suite> {
    (kem(), kdf(), aead_any()).prop_map(|(kem, kdf, aead)| Suite { kem, kdf, aead }).boxed()
}

pub fn suite_sealing() -> BoxedStrategy<Suite> {
    (kem(), kdf(), aead_sealing()).prop_map(|(kem, kdf, aead)| Suite { kem, kdf, aead }).boxed()
}

pub fn suite_sealing_cheap() -> BoxedStrategy<Suite> {
    (kem_cheap(), kdf(), aead_sealing()).prop_map(|(kem, kdf, aead)| Suite { kem, kdf, aead }).boxed()
}

pub fn mode() -> BoxedStrategy<u8> {
    (0u8..4).boxed()
}

/// The explicit inputs of one HPKE session
#[derive(Clone, Debug, PartialEq, Eq, Serialize, Deserialize)]
pub struct Session {
    pub suite: Suite,
    pub mode: u8,
    pub ikm_r: Bytes,
    pub ikm_s: Bytes,
    pub psk: Bytes,
    pub psk_id: Bytes,
    pub info: Bytes,
    pub stream: Bytes,
}

/// Key material of a session as bytes. Derived with the *reference model* so that building a case
/// does not depend on the library's DeriveKeyPair (C03 owns that).
#[derive(Clone, Debug)]
pub struct Keys {
    pub sk_r: Vec<u8>,
    pub pk_r: Vec<u8>,
    pub sk_s: Vec<u8>,
    pub pk_s: Vec<u8>,
}

/// Reference DeriveKeyPair with a small process-wide memo (sweeps and fuzz inputs reuse ikm values;
/// the result is a pure function of (kem, ikm), so caching cannot change any verdict)
pub fn ref_keypair(kem: KemId, ikm: &[u8]) -> (Vec<u8>, Vec<u8>) {
    use std::collections::HashMap;
    use std::sync::{Mutex, OnceLock};
    static MEMO: OnceLock<Mutex<HashMap<(KemId, Vec<u8>), (Vec<u8>, Vec<u8>)>>> = OnceLock::new();
    let m = MEMO.get_or_init(|| Mutex::new(HashMap::new()));
    if ikm.len() <= 80 {
        if let Some(v) = m.lock().unwrap().get(&(kem, ikm.to_vec())) {
            return v.clone();
        }
    }
    let v = r::derive_key_pair(kem, ikm);
    if ikm.len() <= 80 {
        let mut g = m.lock().unwrap();
        if g.len() < 8192 {
            g.insert((kem, ikm.to_vec()), v.clone());
        }
    }
    v
}

impl Session {
    pub fn keys(&self) -> Keys {
        let (sk_r, pk_r) = ref_keypair(self.suite.kem, &self.ikm_r);
        let (sk_s, pk_s) = if self.mode & 2 != 0 {
            ref_keypair(self.suite.kem, &self.ikm_s)
        } else {
            (vec![], vec![])
        };
        Keys { sk_r, pk_r, sk_s, pk_s }
    }
    pub fn mode_s(&self, k: &Keys) -> ModeS {
        ModeS {
            mode: self.mode,
            psk: if self.mode & 1 != 0 { self.psk.clone() } else { Bytes::default() },
            psk_id: if self.mode & 1 != 0 { self.psk_id.clone() } else { Bytes::default() },
            sk_s: Bytes(k.sk_s.clone()),
            pk_s: Bytes(k.pk_s.clone()),
        }
    }
    pub fn mode_r(&self, k: &Keys) -> ModeR {
        self.mode_s(k).receiver()
    }
    pub fn nsk(&self) -> usize {
        self.suite.kem.nsk()
    }
    /// the Nsk bytes the first encapsulation draws from the stream
    pub fn ikm_e(&self) -> Vec<u8> {
        crate::suite::ScriptRng::peek(&self.stream, self.nsk())
    }
    /// a second, different ephemeral input (for the reference acting as sender)
    pub fn ikm_e2(&self) -> Vec<u8> {
        let all = crate::suite::ScriptRng::peek(&self.stream, 2 * self.nsk());
        all[self.nsk()..].to_vec()
    }
    pub fn sender_in<'a>(&'a self, k: &'a Keys, ikm_e: &'a [u8]) -> r::SenderIn<'a> {
        r::SenderIn {
            suite: self.suite,
            mode: self.mode,
            pk_r: &k.pk_r,
            info: &self.info,
            psk: &self.psk,
            psk_id: &self.psk_id,
            sk_s: &k.sk_s,
            pk_s: &k.pk_s,
            ikm_e,
        }
    }
    pub fn receiver_in<'a>(&'a self, k: &'a Keys, enc: &'a [u8]) -> r::ReceiverIn<'a> {
        r::ReceiverIn {
            suite: self.suite,
            mode: self.mode,
            sk_r: &k.sk_r,
            enc,
            info: &self.info,
            psk: &self.psk,
            psk_id: &self.psk_id,
            pk_s: &k.pk_s,
        }
    }
}

/// Sessions inside the RFC's input domain: non-empty psk and psk_id (used only in PSK modes)
pub fn session_with(suite: BoxedStrategy<Suite>) -> BoxedStrategy<Session> {
    (suite, mode(), ikm(), ikm(), bytes_range(1, 300), bytes_range(1, 300), bytes(1100), stream())
        .prop_map(|(suite, mode, ikm_r, ikm_s, psk, psk_id, info, stream)| {
            let mut s = Session { suite, mode, ikm_r, ikm_s, psk, psk_id, info, stream };
            // relations between inputs that independent generation never produces (about 12% of the
            // sessions; the selector is taken from the stream so that no extra value has to shrink)
            match s.stream[158] % 64 {
                0 => s.psk_id = s.psk.clone(),
                1 => s.info = s.psk_id.clone(),
                2 => s.info = s.psk.clone(),
                3 => s.ikm_s = s.ikm_r.clone(), // the sender's identity key pair is the recipient's
                4 => {
                    // psk_id is psk with one more byte / one byte fewer
                    let mut v = s.psk.0.clone();
                    v.push(0);
                    s.psk_id = Bytes(v);
                }
                5 => {
                    let mut v = s.psk_id.0.clone();
                    v.reverse();
                    s.psk = Bytes(v);
                }
                6 => s.info = Bytes(s.ikm_r.0.clone()),
                7 => {
                    // info is the concatenation psk_id || psk (boundary ambiguity with the key schedule inputs)
                    let mut v = s.psk_id.0.clone();
                    v.extend_from_slice(&s.psk);
                    s.info = Bytes(v);
                }
                // the randomness the sender will draw reproduces a static key of the session: RFC 9180
                // defines enc == pkR / pkS and a working session for that ikmE too
                8 => s.ikm_r = Bytes(s.stream[..s.suite.kem.nsk()].to_vec()),
                9 => s.ikm_s = Bytes(s.stream[..s.suite.kem.nsk()].to_vec()),
                10 => s.ikm_r = Bytes(s.stream[s.suite.kem.nsk()..2 * s.suite.kem.nsk()].to_vec()),
                11 => s.ikm_s = Bytes(s.stream[s.suite.kem.nsk()..2 * s.suite.kem.nsk()].to_vec()),
                // degenerate RNG output: the first Nsk bytes all zero / all 0xff, then ordinary bytes
                12 | 13 => {
                    let n = s.suite.kem.nsk();
                    let fillb = if s.stream[158] % 64 == 12 { 0u8 } else { 0xff };
                    let mut v = s.stream.0.clone();
                    for b in v[..n].iter_mut() {
                        *b = fillb;
                    }
                    s.stream = Bytes(v);
                }
                _ => {}
            }
            s
        })
        .boxed()
}

pub fn session_any() -> BoxedStrategy<Session> {
    session_with(suite_any())
}

pub fn session_sealing() -> BoxedStrategy<Session> {
    session_with(suite_sealing())
}

/// A fixed, fully deterministic session for a suite x mode cell of a sweep
pub fn cell_session(suite: Suite, mode: u8, salt: u64) -> Session {
    let tag = (suite.kem.id() as u64) << 40 | (suite.kdf.id() as u64) << 24 | (suite.aead.id() as u64) << 8 | mode as u64;
    let s = mix(tag ^ salt.wrapping_mul(0x9e3779b97f4a7c15));
    Session {
        suite,
        mode,
        ikm_r: Bytes(fill(suite.kem.nsk(), 5, s ^ 1)),
        ikm_s: Bytes(fill(suite.kem.nsk(), 5, s ^ 2)),
        psk: Bytes(fill(32, 5, s ^ 3)),
        psk_id: Bytes(fill(11, 5, s ^ 4)),
        info: Bytes(fill(20, 5, s ^ 5)),
        stream: Bytes(fill(160, 5, s ^ 6)),
    }
}

pub fn all_cells(suites: &[Suite]) -> Vec<(Suite, u8)> {
    let mut v = Vec::new();
    for s in suites {
        for m in 0..4u8 {
            v.push((*s, m));
        }
    }
    v
}

/// A message: plaintext and associated data
#[derive(Clone, Debug, PartialEq, Eq, Serialize, Deserialize)]
pub struct Msg {
    pub pt: Bytes,
    pub aad: Bytes,
}

pub fn msg(max_pt: usize) -> BoxedStrategy<Msg> {
    (bytes(max_pt), prop_oneof![12 => bytes(300), 2 => bytes(1100), 1 => bytes(5000)], 0u8..40)
        .prop_map(|(pt, aad, rel)| match rel {
            0 => Msg { aad: pt.clone(), pt },          // aad equals the plaintext
            1 => Msg { pt: aad.clone(), aad },          // plaintext equals the aad
            _ => Msg { pt, aad },
        })
        .boxed()
}

pub fn fixed_msgs(salt: u64) -> Vec<Msg> {
    vec![
        Msg { pt: Bytes(fill(29, 5, salt ^ 11)), aad: Bytes(fill(7, 5, salt ^ 12)) },
        Msg { pt: Bytes(vec![]), aad: Bytes(fill(16, 5, salt ^ 13)) },
        Msg { pt: Bytes(fill(17, 5, salt ^ 14)), aad: Bytes(vec![]) },
    ]
}

/// Sequence-counter positions of interest: every byte-carry boundary and both ends
pub fn boundary_positions() -> Vec<u64> {
    let mut v = vec![0u64, 1, 2];
    for k in 1..=8u32 {
        for d in 0..3u64 {
            if k < 8 {
                let b = 1u64 << (8 * k);
                v.push(b - 1 - d);
                v.push(b + d);
            } else {
                v.push(u64::MAX - d);
            }
        }
    }
    v.push(u64::MAX - 3);
    v.push(u64::MAX - 8);
    // every power of two, not only the byte carries: 2^k - 2, 2^k - 1, 2^k, 2^k + 1 (a counter or a
    // nonce stepped incrementally goes wrong where a carry chain ends, which can be any bit)
    for k in 1..64u32 {
        let b = 1u64 << k;
        v.extend_from_slice(&[b - 2, b - 1, b, b + 1]);
    }
    v.sort();
    v.dedup();
    v
}

/// A counter position: boundaries, log-uniform, or small
pub fn position() -> BoxedStrategy<u64> {
    prop_oneof![
        4 => select(boundary_positions()),
        2 => (0u32..64, any::<u64>()).prop_map(|(bits, x)| if bits == 0 { 0 } else { (x >> (64 - bits)) | (1u64 << (bits - 1)) }),
        2 => 0u64..1000,
        // shortly before a boundary so that a few seals cross it
        3 => (select(boundary_positions()), 0u64..6).prop_map(|(b, d)| b.saturating_sub(d)),
    ]
    .boxed()
}
