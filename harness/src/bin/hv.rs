//! CLI: hv check <Cxx> <quick|thorough> | hv replay <Cxx> <path> | hv selfcheck
use hpke_verif::engine::{self, Property, Tier};
use hpke_verif::props;
use std::path::Path;

fn seed() -> u64 {
    std::env::var("VERIF_SEED").ok().and_then(|s| s.trim().parse::<u64>().ok()).unwrap_or(1)
}

fn dispatch<P: Property>(p: &P, args: &[String]) -> i32 {
    match args[0].as_str() {
        "check" => {
            let tier = match args.get(2).map(|s| s.as_str()) {
                Some("thorough") => Tier::Thorough,
                _ => Tier::Quick,
            };
            engine::run(p, tier, seed()).exit
        }
        "replay" => engine::replay(p, Path::new(&args[2])).exit,
        _ => 2,
    }
}

fn main() {
    engine::install_panic_hook();
    let args: Vec<String> = std::env::args().skip(1).collect();
    if args.is_empty() {
        eprintln!("usage: hv check <Cxx> <quick|thorough> | hv replay <Cxx> <path> | hv selfcheck");
        std::process::exit(2);
    }
    if args[0] == "selfcheck" {
        match hpke_verif::refmodel::selfcheck::oracle_selfcheck(1) {
            Ok(r) => {
                println!("oracle self-check ok: {} anchors, {} golden vectors", r.anchors, r.golden);
                std::process::exit(0)
            }
            Err(e) => {
                eprintln!("oracle self-check FAILED: {}", e);
                std::process::exit(2)
            }
        }
    }
    if args[0] == "c18-child" && args.len() == 2 {
        // reads a C18 case from stdin, runs only the given session in this fresh process, prints its transcript
        use std::io::Read;
        let mut js = String::new();
        let _ = std::io::stdin().read_to_string(&mut js);
        let idx: usize = args[1].parse().unwrap_or(0);
        match serde_json::from_str::<hpke_verif::props::c18::Case>(&js) {
            Ok(case) if idx < case.scripts.len() => {
                let t = hpke_verif::props::c18::single_session_transcript(&case, idx);
                println!("{}", serde_json::to_string(&t).unwrap_or_default());
                std::process::exit(0);
            }
            _ => std::process::exit(2),
        }
    }
    if args[0] == "fuzz-seeds" && args.len() == 3 {
        // hv fuzz-seeds <target> <dir>
        let dir = Path::new(&args[2]);
        std::fs::create_dir_all(dir).expect("mkdir");
        for (i, s) in hpke_verif::fuzzdec::seeds(&args[1]).iter().enumerate() {
            std::fs::write(dir.join(format!("seed-{:04}", i)), s).expect("write seed");
        }
        std::process::exit(0);
    }
    if args[0] == "fuzz-replay" && args.len() >= 3 {
        // hv fuzz-replay <target> <file>...   re-decodes inputs outside libFuzzer.
        // prints FUZZ-VIOLATION lines for reproduced oracle failures; exit 1 if any, else 0
        let mut bad = 0;
        let mut nontrivial = 0;
        let mut total = 0;
        for f in &args[2..] {
            let Ok(data) = std::fs::read(f) else { continue };
            let mut info = hpke_verif::fuzzdec::FuzzInfo::default();
            total += 1;
            if let Some(v) = hpke_verif::fuzzdec::fuzz_one(&args[1], &data, &mut info) {
                println!("FUZZ-VIOLATION property={} signature={} file={} {}", v.property, v.sig, f, v.msg);
                println!("FUZZ-CASE {}", v.case_json);
                bad += 1;
            }
            if info.nontrivial {
                nontrivial += 1;
            }
        }
        println!("FUZZ-REPLAY target={} inputs={} nontrivial={} violations={}", args[1], total, nontrivial, bad);
        std::process::exit(if bad > 0 { 1 } else { 0 });
    }
    if args.len() < 3 {
        eprintln!("usage: hv check <Cxx> <quick|thorough> | hv replay <Cxx> <path>");
        std::process::exit(2);
    }
    let code = engine::catch(|| match args[1].as_str() {
        "C01" => dispatch(&props::c01::P, &args),
        "C02" => dispatch(&props::c02::P, &args),
        "C12" => dispatch(&props::c12::P, &args),
        "C13" => dispatch(&props::c13::P, &args),
        "C14" => dispatch(&props::c14::P, &args),
        "C03" => dispatch(&props::c03::P, &args),
        "C04" => dispatch(&props::c04::P, &args),
        "C05" => dispatch(&props::c05::P, &args),
        "C06" => dispatch(&props::c06::P, &args),
        "C07" => dispatch(&props::c07::P, &args),
        "C08" => dispatch(&props::c08::P, &args),
        "C09" => dispatch(&props::c09::P, &args),
        "C10" => dispatch(&props::c10::P, &args),
        "C11" => dispatch(&props::c11::P, &args),
        "C15" => dispatch(&props::c15::P, &args),
        "C16" => dispatch(&props::c16::P, &args),
        "C17" => dispatch(&props::c17::P, &args),
        "C18" => dispatch(&props::c18::P, &args),
        other => {
            eprintln!("unknown property {}", other);
            2
        }
    })
    .unwrap_or_else(|e| {
        eprintln!("INFRA harness panicked outside a check: {}", e);
        2
    });
    std::process::exit(code);
}
