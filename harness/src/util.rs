//! Small helpers shared by the harness.

pub fn unhex(s: &str) -> Vec<u8> {
    let s: String = s.chars().filter(|c| !c.is_whitespace()).collect();
    assert!(s.len() % 2 == 0, "odd hex length");
    (0..s.len() / 2).map(|i| u8::from_str_radix(&s[2 * i..2 * i + 2], 16).expect("bad hex")).collect()
}

pub fn hex(b: &[u8]) -> String {
    let mut s = String::with_capacity(b.len() * 2);
    for x in b {
        s.push_str(&format!("{:02x}", x));
    }
    s
}

/// Hex with long strings abbreviated (for messages and evidence samples)
pub fn hex_short(b: &[u8]) -> String {
    if b.len() <= 48 {
        hex(b)
    } else {
        format!("{}..{}(len={})", hex(&b[..16]), hex(&b[b.len() - 8..]), b.len())
    }
}

/// FNV-1a 64-bit, used for case fingerprints (no dependence on std's randomised hasher)
pub fn fnv64(data: &[u8]) -> u64 {
    let mut h: u64 = 0xcbf29ce484222325;
    for b in data {
        h ^= *b as u64;
        h = h.wrapping_mul(0x100000001b3);
    }
    h
}

/// splitmix64, used to derive per-worker seeds from VERIF_SEED
pub fn mix(mut z: u64) -> u64 {
    z = z.wrapping_add(0x9e3779b97f4a7c15);
    z = (z ^ (z >> 30)).wrapping_mul(0xbf58476d1ce4e5b9);
    z = (z ^ (z >> 27)).wrapping_mul(0x94d049bb133111eb);
    z ^ (z >> 31)
}

/// serde helper: byte strings as hex in replay files
pub mod hexser {
    use serde::{Deserialize, Deserializer, Serializer};
    pub fn serialize<S: Serializer>(v: &Vec<u8>, s: S) -> Result<S::Ok, S::Error> {
        s.serialize_str(&super::hex(v))
    }
    pub fn deserialize<'de, D: Deserializer<'de>>(d: D) -> Result<Vec<u8>, D::Error> {
        let s = String::deserialize(d)?;
        if s.len() % 2 != 0 || !s.chars().all(|c| c.is_ascii_hexdigit()) {
            return Err(serde::de::Error::custom("bad hex"));
        }
        Ok(super::unhex(&s))
    }
}

/// A byte string that serialises as hex
#[derive(Clone, PartialEq, Eq, Hash, Default)]
pub struct Bytes(pub Vec<u8>);

impl std::fmt::Debug for Bytes {
    fn fmt(&self, f: &mut std::fmt::Formatter<'_>) -> std::fmt::Result {
        write!(f, "h\"{}\"", hex_short(&self.0))
    }
}
impl serde::Serialize for Bytes {
    fn serialize<S: serde::Serializer>(&self, s: S) -> Result<S::Ok, S::Error> {
        hexser::serialize(&self.0, s)
    }
}
impl<'de> serde::Deserialize<'de> for Bytes {
    fn deserialize<D: serde::Deserializer<'de>>(d: D) -> Result<Self, D::Error> {
        hexser::deserialize(d).map(Bytes)
    }
}
impl std::ops::Deref for Bytes {
    type Target = Vec<u8>;
    fn deref(&self) -> &Vec<u8> {
        &self.0
    }
}
impl From<Vec<u8>> for Bytes {
    fn from(v: Vec<u8>) -> Bytes {
        Bytes(v)
    }
}
impl From<&[u8]> for Bytes {
    fn from(v: &[u8]) -> Bytes {
        Bytes(v.to_vec())
    }
}
