//! The engine: corpus replay, exhaustive sweeps, the parallel proptest driver, evidence, replay
//! files, known findings and exit codes.

use crate::util::{fnv64, mix};
use proptest::strategy::{BoxedStrategy, Strategy};
use proptest::test_runner::{Config, RngSeed, TestCaseError, TestError, TestRunner};
use serde::de::DeserializeOwned;
use serde::Serialize;
use serde_json::{json, Value};
use std::collections::{BTreeMap, HashSet};
use std::fmt::Debug;
use std::path::{Path, PathBuf};
use std::sync::atomic::{AtomicBool, Ordering};
use std::sync::Mutex;
use std::time::Instant;

#[derive(Clone, Copy, Debug, PartialEq, Eq)]
pub enum Tier {
    Quick,
    Thorough,
}

impl Tier {
    pub fn name(self) -> &'static str {
        match self {
            Tier::Quick => "quick",
            Tier::Thorough => "thorough",
        }
    }
    pub fn pick<T>(self, quick: T, thorough: T) -> T {
        match self {
            Tier::Quick => quick,
            Tier::Thorough => thorough,
        }
    }
}

pub fn workers() -> usize {
    std::env::var("VERIF_WORKERS")
        .ok()
        .and_then(|s| s.parse().ok())
        .unwrap_or_else(|| std::thread::available_parallelism().map(|n| n.get()).unwrap_or(8).min(16))
}

#[derive(Clone, Debug, PartialEq, Eq)]
pub enum Verdict {
    Pass,
    /// the case could not be built or observed (a step owned by another property failed, or the
    /// precondition of the oracle does not hold); counted, never a violation
    Skip(String),
    /// the property is violated; `sig` names the call site / history class
    Fail { sig: String, msg: String },
}

impl Verdict {
    pub fn fail(sig: impl Into<String>, msg: impl Into<String>) -> Verdict {
        Verdict::Fail { sig: sig.into(), msg: msg.into() }
    }
    pub fn skip(why: impl Into<String>) -> Verdict {
        Verdict::Skip(why.into())
    }
    pub fn is_fail(&self) -> bool {
        matches!(self, Verdict::Fail { .. })
    }
}

/// `vtry!(expr)`: expr is a `Result<T, Verdict>`; returns the verdict on Err
#[macro_export]
macro_rules! vtry {
    ($e:expr) => {
        match $e {
            Ok(v) => v,
            Err(verdict) => return verdict,
        }
    };
}

/// `ensure!(cond, sig, fmt...)`: fails the property when cond is false
#[macro_export]
macro_rules! ensure {
    ($cond:expr, $sig:expr, $($arg:tt)*) => {
        if !($cond) {
            return $crate::engine::Verdict::Fail { sig: ($sig).to_string(), msg: format!($($arg)*) };
        }
    };
}

/// What a check reports about the case besides the verdict
#[derive(Default, Debug)]
pub struct Obs {
    pub labels: Vec<String>,
    pub nontrivial: bool,
    /// number of elementary oracle comparisons performed inside this case
    pub inner_checks: u64,
}

impl Obs {
    pub fn label(&mut self, l: impl Into<String>) {
        self.labels.push(l.into());
    }
}

pub trait Property: Sync {
    type Case: Clone + Debug + Serialize + DeserializeOwned + Send + Sync + 'static;
    fn id(&self) -> &'static str;
    /// how cases are generated and what makes one non-trivial
    fn rule(&self) -> String;
    fn assumptions(&self) -> Vec<String>;
    /// oracle self-check etc. Err => exit 2. Ok => notes for the evidence.
    fn prelude(&self, _tier: Tier) -> Result<Vec<String>, String> {
        Ok(vec![])
    }
    fn strategy(&self, tier: Tier) -> BoxedStrategy<Self::Case>;
    fn cases(&self, tier: Tier) -> u32;
    /// named exhaustive enumerations of finite sub-domains
    fn sweeps(&self, _tier: Tier) -> Vec<(String, Vec<Self::Case>)> {
        vec![]
    }
    fn check(&self, case: &Self::Case, obs: &mut Obs) -> Verdict;
    /// additional phases that are not case-based (long runs, compile probes). They report through
    /// the `Extra` handle.
    fn extra(&self, _tier: Tier, _seed: u64, _x: &mut Extra) {}
    /// re-run a failure of the extra phase from its replay payload
    fn replay_extra(&self, _payload: &Value, _x: &mut Extra) {}
    /// max shrink iterations
    fn shrink_iters(&self) -> u32 {
        2048
    }
    /// run the proptest phase on one thread (C16: the drop ledger is process-global)
    fn single_threaded(&self) -> bool {
        false
    }
    /// true when this tier enumerates the property's whole (finite) domain
    fn exhaustive(&self, _tier: Tier) -> bool {
        false
    }
    /// number of worker threads for sweeps and generation (default: all cores, at most 16)
    fn worker_count(&self) -> usize {
        if self.single_threaded() {
            1
        } else {
            workers()
        }
    }
}

/// Results of non-case phases
#[derive(Default)]
pub struct Extra {
    pub evaluations: u64,
    pub notes: BTreeMap<String, Value>,
    pub failure: Option<(String, String, Value)>, // sig, msg, replay payload
    pub infra_error: Option<String>,
}

#[derive(Default)]
struct Stats {
    evaluations: u64,
    inner_checks: u64,
    labels: BTreeMap<String, u64>,
    skipped: BTreeMap<String, u64>,
    nontrivial: HashSet<u64>,
    /// the 8 non-trivial cases with the smallest fingerprints (a deterministic choice for a given
    /// seed, whatever the thread interleaving)
    samples: BTreeMap<u64, Value>,
    seen_nt: u64,
    known_hits: BTreeMap<String, u64>,
}

impl Stats {
    fn merge(&mut self, o: Stats) {
        self.evaluations += o.evaluations;
        self.inner_checks += o.inner_checks;
        for (k, v) in o.labels {
            *self.labels.entry(k).or_default() += v;
        }
        for (k, v) in o.skipped {
            *self.skipped.entry(k).or_default() += v;
        }
        self.nontrivial.extend(o.nontrivial);
        for (k, v) in o.samples {
            self.samples.insert(k, v);
        }
        while self.samples.len() > 8 {
            let last = *self.samples.keys().next_back().unwrap();
            self.samples.remove(&last);
        }
        self.seen_nt += o.seen_nt;
        for (k, v) in o.known_hits {
            *self.known_hits.entry(k).or_default() += v;
        }
    }

    fn record<C: Serialize>(&mut self, case: &C, obs: &Obs, verdict: &Verdict, phase: &str) {
        self.evaluations += 1;
        self.inner_checks += obs.inner_checks;
        for l in &obs.labels {
            *self.labels.entry(l.clone()).or_default() += 1;
        }
        *self.labels.entry(format!("phase:{}", phase)).or_default() += 1;
        if let Verdict::Skip(why) = verdict {
            *self.skipped.entry(why.clone()).or_default() += 1;
            return;
        }
        if obs.nontrivial {
            let js = serde_json::to_string(case).unwrap_or_default();
            let fp = fnv64(js.as_bytes());
            if self.nontrivial.insert(fp) {
                self.seen_nt += 1;
                let keep = self.samples.len() < 8 || self.samples.keys().next_back().map(|m| fp < *m).unwrap_or(true);
                if keep {
                    let v: Value = serde_json::from_str(&js).unwrap_or(Value::Null);
                    self.samples.insert(fp, json!({"phase": phase, "labels": obs.labels, "case": truncate_value(v)}));
                    while self.samples.len() > 8 {
                        let last = *self.samples.keys().next_back().unwrap();
                        self.samples.remove(&last);
                    }
                }
            }
        }
    }
}

/// Long hex strings in samples are abbreviated so evidence files stay readable
fn truncate_value(v: Value) -> Value {
    match v {
        Value::String(s) if s.len() > 160 => Value::String(format!("{}...(+{} chars)", &s[..96], s.len() - 96)),
        Value::Array(a) => {
            let n = a.len();
            let mut out: Vec<Value> = a.into_iter().take(24).map(truncate_value).collect();
            if n > 24 {
                out.push(Value::String(format!("...(+{} items)", n - 24)));
            }
            Value::Array(out)
        }
        Value::Object(o) => Value::Object(o.into_iter().map(|(k, v)| (k, truncate_value(v))).collect()),
        x => x,
    }
}

// ------------------------------------------------------------------------------------------------
// known findings

pub struct Known {
    /// (property, signature, text)
    pub findings: Vec<(String, String, String)>,
}

impl Known {
    pub fn load(root: &Path) -> Known {
        let mut findings = Vec::new();
        if let Ok(s) = std::fs::read_to_string(root.join("known_findings.txt")) {
            for line in s.lines() {
                let line = line.trim();
                if let Some(rest) = line.strip_prefix("finding:") {
                    let mut prop = String::new();
                    let mut sig = String::new();
                    let mut text = Vec::new();
                    for tok in rest.split_whitespace() {
                        if let Some(p) = tok.strip_prefix("property=") {
                            prop = p.to_string();
                        } else if let Some(s) = tok.strip_prefix("signature=") {
                            sig = s.to_string();
                        } else {
                            text.push(tok);
                        }
                    }
                    if !prop.is_empty() && !sig.is_empty() {
                        findings.push((prop, sig, text.join(" ")));
                    }
                }
            }
        }
        Known { findings }
    }
    pub fn lookup(&self, prop: &str, sig: &str) -> Option<&str> {
        self.findings.iter().find(|(p, s, _)| p == prop && s == sig).map(|(_, _, t)| t.as_str())
    }
}

// ------------------------------------------------------------------------------------------------
// panic capture

thread_local! {
    static LAST_PANIC: std::cell::RefCell<Option<String>> = const { std::cell::RefCell::new(None) };
}

/// Installs a silent panic hook that remembers the message per thread
pub fn install_panic_hook() {
    std::panic::set_hook(Box::new(|info| {
        let msg = if let Some(s) = info.payload().downcast_ref::<&str>() {
            s.to_string()
        } else if let Some(s) = info.payload().downcast_ref::<String>() {
            s.clone()
        } else {
            "<non-string panic>".to_string()
        };
        let loc = info.location().map(|l| format!("{}:{}", l.file(), l.line())).unwrap_or_default();
        LAST_PANIC.with(|p| *p.borrow_mut() = Some(format!("{} @ {}", msg, loc)));
        if std::env::var("VERIF_SHOW_PANICS").is_ok() {
            eprintln!("[panic] {} @ {}", msg, loc);
        }
    }));
}

pub fn take_last_panic() -> Option<String> {
    LAST_PANIC.with(|p| p.borrow_mut().take())
}

/// Runs `f`, turning a panic into Err(message)
pub fn catch<T>(f: impl FnOnce() -> T) -> Result<T, String> {
    match std::panic::catch_unwind(std::panic::AssertUnwindSafe(f)) {
        Ok(v) => Ok(v),
        Err(_) => Err(take_last_panic().unwrap_or_else(|| "<panic>".to_string())),
    }
}

fn eval<P: Property>(p: &P, case: &P::Case) -> (Verdict, Obs) {
    let mut obs = Obs::default();
    let r = catch(|| p.check(case, &mut obs));
    match r {
        Ok(v) => (v, obs),
        Err(msg) => {
            // where in the harness/library the panic came from is part of the signature
            let tree = std::env::var("HPKE_TREE").unwrap_or_else(|_| "/repo".into());
            let site = msg.rsplit(" @ ").next().unwrap_or("").replace(&format!("{}/", tree.trim_end_matches('/')), "");
            (Verdict::fail(format!("{}/panic@{}", p.id(), site), format!("the check panicked: {}", msg)), obs)
        }
    }
}

/// Structural shrinking for failures found outside proptest (sweeps, corpus): repeatedly try to
/// delete one element of any array inside the case's JSON encoding, keeping a deletion when the
/// smaller case still decodes and still fails. Bounded; best effort.
fn shrink_json<P: Property>(p: &P, known: &Known, start: &Value) -> Option<(Value, String, String)> {
    fn arrays(v: &Value, path: &mut Vec<String>, out: &mut Vec<(Vec<String>, usize)>) {
        match v {
            Value::Array(a) => {
                out.push((path.clone(), a.len()));
                for (i, x) in a.iter().enumerate() {
                    path.push(i.to_string());
                    arrays(x, path, out);
                    path.pop();
                }
            }
            Value::Object(o) => {
                for (k, x) in o {
                    path.push(k.clone());
                    arrays(x, path, out);
                    path.pop();
                }
            }
            _ => {}
        }
    }
    fn at<'a>(v: &'a mut Value, path: &[String]) -> Option<&'a mut Value> {
        let mut cur = v;
        for k in path {
            cur = match cur {
                Value::Array(a) => a.get_mut(k.parse::<usize>().ok()?)?,
                Value::Object(o) => o.get_mut(k)?,
                _ => return None,
            };
        }
        Some(cur)
    }
    let fails = |v: &Value| -> Option<(String, String)> {
        let case: P::Case = serde_json::from_value(v.clone()).ok()?;
        match eval(p, &case).0 {
            Verdict::Fail { sig, msg } if known.lookup(p.id(), &sig).is_none() => Some((sig, msg)),
            _ => None,
        }
    };
    let mut best = start.clone();
    let mut best_info = fails(&best)?;
    let mut budget = 400usize;
    let mut improved = true;
    while improved && budget > 0 {
        improved = false;
        let mut list = Vec::new();
        arrays(&best, &mut Vec::new(), &mut list);
        'outer: for (path, len) in list {
            for i in (0..len).rev() {
                if budget == 0 {
                    break 'outer;
                }
                budget -= 1;
                let mut cand = best.clone();
                if let Some(Value::Array(a)) = at(&mut cand, &path) {
                    if i < a.len() {
                        a.remove(i);
                    }
                }
                if let Some(info) = fails(&cand) {
                    best = cand;
                    best_info = info;
                    improved = true;
                    continue 'outer;
                }
            }
        }
    }
    if best == *start {
        None
    } else {
        Some((best, best_info.0, best_info.1))
    }
}

// ------------------------------------------------------------------------------------------------

pub struct RunResult {
    pub exit: i32,
}

struct Failure {
    sig: String,
    msg: String,
    case: Value,
    phase: String,
    shrunk: bool,
}

fn replay_doc(id: &str, f: &Failure, seed: u64, tier: Tier) -> Value {
    json!({
        "property": id,
        "signature": f.sig,
        "message": f.msg,
        "phase": f.phase,
        "shrunk": f.shrunk,
        "seed": seed,
        "tier": tier.name(),
        "case": f.case,
    })
}

pub fn root() -> PathBuf {
    crate::corpus::verif_root()
}

fn write_replay(id: &str, doc: &Value) -> PathBuf {
    let dir = root().join("replays");
    let _ = std::fs::create_dir_all(&dir);
    let body = serde_json::to_string_pretty(doc).unwrap();
    let fp = fnv64(serde_json::to_string(&doc["case"]).unwrap().as_bytes());
    let path = dir.join(format!("{}-{:016x}.json", id, fp));
    std::fs::write(&path, body).expect("write replay");
    path
}

pub fn run<P: Property>(p: &P, tier: Tier, seed: u64) -> RunResult {
    let t0 = Instant::now();
    let id = p.id();
    let known = Known::load(&root());
    let mut stats = Stats::default();
    let mut failure: Option<Failure> = None;
    let mut sweeps_info: BTreeMap<String, Value> = BTreeMap::new();
    let mut notes: Vec<String> = Vec::new();

    // 0. oracle self-check
    match catch(|| p.prelude(tier)) {
        Ok(Ok(n)) => notes.extend(n),
        Ok(Err(e)) => {
            eprintln!("INFRA property={} oracle/prelude failure: {}", id, e);
            return RunResult { exit: 2 };
        }
        Err(e) => {
            eprintln!("INFRA property={} prelude panicked: {}", id, e);
            return RunResult { exit: 2 };
        }
    }

    // handle one evaluated case; returns true when it is a (non-known) failure
    let handle = |stats: &mut Stats, case: &P::Case, phase: &str| -> Option<Failure> {
        let (mut verdict, obs) = eval(p, case);
        if let Verdict::Fail { sig, .. } = &verdict {
            if known.lookup(id, sig).is_some() {
                *stats.known_hits.entry(sig.clone()).or_default() += 1;
                verdict = Verdict::Skip(format!("known-finding:{}", sig));
            }
        }
        stats.record(case, &obs, &verdict, phase);
        if let Verdict::Fail { sig, msg } = verdict {
            Some(Failure {
                sig,
                msg,
                case: serde_json::to_value(case).unwrap_or(Value::Null),
                phase: phase.to_string(),
                shrunk: false,
            })
        } else {
            None
        }
    };

    // 1. corpus replay (committed regression cases for this property)
    let corpus_dir = root().join("corpus").join(id);
    let mut corpus_files: Vec<PathBuf> = std::fs::read_dir(&corpus_dir)
        .map(|rd| rd.filter_map(|e| e.ok()).map(|e| e.path()).filter(|p| p.extension().map(|x| x == "json").unwrap_or(false)).collect())
        .unwrap_or_default();
    corpus_files.sort();
    let mut corpus_n = 0u64;
    for f in &corpus_files {
        let txt = match std::fs::read_to_string(f) {
            Ok(t) => t,
            Err(_) => continue,
        };
        let doc: Value = match serde_json::from_str(&txt) {
            Ok(v) => v,
            Err(e) => {
                eprintln!("INFRA property={} unreadable corpus file {}: {}", id, f.display(), e);
                return RunResult { exit: 2 };
            }
        };
        let cv = if doc.get("case").is_some() { doc["case"].clone() } else { doc };
        let case: P::Case = match serde_json::from_value(cv) {
            Ok(c) => c,
            Err(e) => {
                eprintln!("INFRA property={} corpus file {} does not decode: {}", id, f.display(), e);
                return RunResult { exit: 2 };
            }
        };
        corpus_n += 1;
        if failure.is_none() {
            failure = handle(&mut stats, &case, "corpus");
        }
    }
    sweeps_info.insert("corpus_replay".into(), json!({"count": corpus_n, "exhaustive": true}));

    // 2. exhaustive sweeps, in parallel
    if failure.is_none() {
        let sweeps = match catch(|| p.sweeps(tier)) {
            Ok(s) => s,
            Err(e) => {
                eprintln!("INFRA property={} sweep construction panicked: {}", id, e);
                return RunResult { exit: 2 };
            }
        };
        for (name, cases) in sweeps {
            if failure.is_some() {
                break;
            }
            let n = cases.len();
            let next = std::sync::atomic::AtomicUsize::new(0);
            let stop = AtomicBool::new(false);
            let merged: Mutex<(Stats, Option<Failure>)> = Mutex::new((Stats::default(), None));
            let w = p.worker_count();
            std::thread::scope(|s| {
                for _ in 0..w {
                    s.spawn(|| {
                        let mut local = Stats::default();
                        let mut fail = None;
                        loop {
                            if stop.load(Ordering::SeqCst) {
                                break;
                            }
                            let i = next.fetch_add(1, Ordering::SeqCst);
                            if i >= n {
                                break;
                            }
                            if let Some(f) = handle(&mut local, &cases[i], &format!("sweep:{}", name)) {
                                fail = Some(f);
                                stop.store(true, Ordering::SeqCst);
                                break;
                            }
                        }
                        let mut g = merged.lock().unwrap();
                        g.0.merge(local);
                        if g.1.is_none() {
                            g.1 = fail;
                        }
                    });
                }
            });
            let (st, f) = merged.into_inner().unwrap();
            stats.merge(st);
            failure = f;
            sweeps_info.insert(name, json!({"count": n, "exhaustive": true}));
        }
    }

    // 3. generated cases with shrinking
    let total_cases = p.cases(tier);
    if failure.is_none() && total_cases > 0 {
        let w = p.worker_count().min(total_cases as usize).max(1);
        let per = (total_cases as usize + w - 1) / w;
        let stop = AtomicBool::new(false);
        let merged: Mutex<(Stats, Option<Failure>)> = Mutex::new((Stats::default(), None));
        let infra: Mutex<Option<String>> = Mutex::new(None);
        std::thread::scope(|s| {
            for wi in 0..w {
                let infra = &infra;
                let stop = &stop;
                let merged = &merged;
                let handle = &handle;
                let known = &known;
                s.spawn(move || {
                    let wseed = mix(seed ^ mix(fnv64(id.as_bytes()) ^ (wi as u64) << 32));
                    let cfg = Config {
                        cases: per as u32,
                        failure_persistence: None,
                        rng_seed: RngSeed::Fixed(wseed),
                        max_shrink_iters: p.shrink_iters(),
                        max_global_rejects: 65536,
                        verbose: 0,
                        ..Config::default()
                    };
                    let mut runner = TestRunner::new(cfg);
                    let strat = p.strategy(tier);
                    let local = std::cell::RefCell::new(Stats::default());
                    let failed = std::cell::Cell::new(false);
                    let first_fail: std::cell::RefCell<Option<Failure>> = std::cell::RefCell::new(None);
                    let res = catch(|| runner.run(&strat, |case| {
                        if stop.load(Ordering::SeqCst) && !failed.get() {
                            return Ok(());
                        }
                        if failed.get() {
                            // shrinking: evaluate without counting
                            let (verdict, _) = eval(p, &case);
                            return match verdict {
                                Verdict::Fail { sig, msg } if known.lookup(id, &sig).is_none() => {
                                    Err(TestCaseError::fail(format!("{}: {}", sig, msg)))
                                }
                                _ => Ok(()),
                            };
                        }
                        match handle(&mut local.borrow_mut(), &case, "generated") {
                            Some(f) => {
                                failed.set(true);
                                stop.store(true, Ordering::SeqCst);
                                let r = format!("{}: {}", f.sig, f.msg);
                                *first_fail.borrow_mut() = Some(f);
                                Err(TestCaseError::fail(r))
                            }
                            None => Ok(()),
                        }
                    }));
                    let res = match res {
                        Ok(r) => r,
                        Err(e) => {
                            infra.lock().unwrap().get_or_insert(format!("generator/runner panicked: {}", e));
                            Ok(())
                        }
                    };
                    let mut fail = first_fail.into_inner();
                    if let Err(TestError::Fail(_, minimal)) = res {
                        // re-evaluate the minimal case to obtain its signature and message
                        let (verdict, _) = eval(p, &minimal);
                        if let Verdict::Fail { sig, msg } = verdict {
                            fail = Some(Failure {
                                sig,
                                msg,
                                case: serde_json::to_value(&minimal).unwrap_or(Value::Null),
                                phase: "generated".into(),
                                shrunk: true,
                            });
                        }
                    } else if let Err(TestError::Abort(r)) = res {
                        eprintln!("note: property={} worker {} aborted: {}", id, wi, r);
                    }
                    let mut g = merged.lock().unwrap();
                    g.0.merge(local.into_inner());
                    if g.1.is_none() {
                        g.1 = fail;
                    }
                });
            }
        });
        let (st, f) = merged.into_inner().unwrap();
        stats.merge(st);
        failure = f;
        if let Some(e) = infra.into_inner().unwrap() {
            eprintln!("INFRA property={} {}", id, e);
            return RunResult { exit: 2 };
        }
    }

    // 4. non-case phases
    let mut extra = Extra::default();
    if failure.is_none() {
        if let Err(e) = catch(|| p.extra(tier, seed, &mut extra)) {
            extra.infra_error = Some(format!("extra phase panicked: {}", e));
        }
        if let Some((sig, msg, payload)) = extra.failure.take() {
            if known.lookup(id, &sig).is_some() {
                *stats.known_hits.entry(sig.clone()).or_default() += 1;
            } else {
                failure = Some(Failure { sig, msg, case: payload, phase: "extra".into(), shrunk: false });
            }
        }
    }

    // too many construction failures => the check no longer explores what it claims
    let skipped_total: u64 = stats.skipped.iter().filter(|(k, _)| !k.starts_with("known-finding")).map(|(_, v)| *v).sum();
    let evaluations = stats.evaluations + extra.evaluations;

    for (sig, n) in &stats.known_hits {
        let text = known.lookup(id, sig).unwrap_or("");
        println!("KNOWN-FINDING: property={} {} [signature={} hits={}]", id, text, sig, n);
    }

    let mut samples: Vec<Value> = stats.samples.values().cloned().collect();
    if samples.is_empty() {
        samples.push(json!({"note": "no non-trivial case sample recorded"}));
    }
    let violations = if failure.is_some() { 1 } else { 0 };
    let mut coverage = json!({
        "evaluations": evaluations,
        "distinct_nontrivial": stats.nontrivial.len(),
        "rule": p.rule(),
        "samples": samples,
        "classes": stats.labels,
        "sweeps": sweeps_info,
        "generated_cases_requested": total_cases,
        "inner_oracle_comparisons": stats.inner_checks,
        "skipped": stats.skipped,
        "known_findings_hit": stats.known_hits,
        "notes": notes,
        "exhaustive": p.exhaustive(tier),
    });
    for (k, v) in extra.notes {
        coverage[k] = v;
    }
    // statistics of the libFuzzer campaigns check.sh ran before this process (thorough tier)
    let mut fuzz_execs = 0u64;
    if let Ok(path) = std::env::var("VERIF_FUZZ_STATS") {
        if let Ok(txt) = std::fs::read_to_string(&path) {
            if let Ok(v) = serde_json::from_str::<Value>(&txt) {
                if let Some(arr) = v.as_array() {
                    for c in arr {
                        fuzz_execs += c["executions"].as_u64().unwrap_or(0);
                    }
                }
                coverage["fuzz"] = v;
            }
        }
    }
    coverage["evaluations"] = json!(evaluations + fuzz_execs);
    let evidence = json!({
        "property_id": id,
        "tier": tier.name(),
        "seed": seed,
        "level": "exploration",
        "coverage": coverage,
        "assumptions": p.assumptions(),
        "wall_s": t0.elapsed().as_secs_f64(),
        "violations": violations,
    });
    let evdir = root().join("evidence");
    let _ = std::fs::create_dir_all(&evdir);
    std::fs::write(evdir.join(format!("{}.json", id)), serde_json::to_string_pretty(&evidence).unwrap())
        .expect("write evidence");

    if let Some(mut f) = failure {
        if !f.shrunk && f.phase != "extra" {
            if let Some((v, sig, msg)) = shrink_json(p, &known, &f.case) {
                f.case = v;
                f.sig = sig;
                f.msg = msg;
                f.shrunk = true;
                f.phase = format!("{} (then shrunk structurally)", f.phase);
            }
        }
        let doc = replay_doc(id, &f, seed, tier);
        let path = write_replay(id, &doc);
        println!("VIOLATION property={} replay={}", id, path.display());
        println!("  signature: {}", f.sig);
        println!("  phase: {} (shrunk: {})", f.phase, f.shrunk);
        println!("  {}", f.msg);
        return RunResult { exit: 1 };
    }
    if let Some(e) = extra.infra_error {
        eprintln!("INFRA property={} {}", id, e);
        return RunResult { exit: 2 };
    }
    if stats.evaluations > 20 && skipped_total * 5 > stats.evaluations {
        eprintln!(
            "INFRA property={} {} of {} cases were skipped ({:?}); the check is not exploring what it claims",
            id, skipped_total, stats.evaluations, stats.skipped
        );
        return RunResult { exit: 2 };
    }
    println!(
        "OK property={} tier={} seed={} evaluations={} distinct_nontrivial={} wall={:.1}s",
        id,
        tier.name(),
        seed,
        evaluations,
        stats.nontrivial.len(),
        t0.elapsed().as_secs_f64()
    );
    RunResult { exit: 0 }
}

/// Re-runs the case stored in a replay file, with no library in the loop
pub fn replay<P: Property>(p: &P, path: &Path) -> RunResult {
    let id = p.id();
    let txt = match std::fs::read_to_string(path) {
        Ok(t) => t,
        Err(e) => {
            eprintln!("INFRA cannot read {}: {}", path.display(), e);
            return RunResult { exit: 2 };
        }
    };
    let doc: Value = match serde_json::from_str(&txt) {
        Ok(v) => v,
        Err(e) => {
            eprintln!("INFRA {} is not JSON: {}", path.display(), e);
            return RunResult { exit: 2 };
        }
    };
    if doc.get("phase").and_then(|v| v.as_str()) == Some("extra") {
        let mut x = Extra::default();
        p.replay_extra(&doc["case"], &mut x);
        if let Some((sig, msg, _)) = x.failure {
            println!("VIOLATION property={} replay={}", id, path.display());
            println!("  signature: {}\n  {}", sig, msg);
            return RunResult { exit: 1 };
        }
        if let Some(e) = x.infra_error {
            eprintln!("INFRA property={} {}", id, e);
            return RunResult { exit: 2 };
        }
        println!("OK property={} replay passed", id);
        return RunResult { exit: 0 };
    }
    let cv = if doc.get("case").is_some() { doc["case"].clone() } else { doc };
    let case: P::Case = match serde_json::from_value(cv) {
        Ok(c) => c,
        Err(e) => {
            eprintln!("INFRA {} does not decode as a {} case: {}", path.display(), id, e);
            return RunResult { exit: 2 };
        }
    };
    if let Err(e) = catch(|| p.prelude(Tier::Quick)) {
        eprintln!("INFRA prelude panicked: {}", e);
        return RunResult { exit: 2 };
    }
    let (verdict, obs) = eval(p, &case);
    match verdict {
        Verdict::Fail { sig, msg } => {
            println!("VIOLATION property={} replay={}", id, path.display());
            println!("  signature: {}\n  {}", sig, msg);
            RunResult { exit: 1 }
        }
        Verdict::Skip(w) => {
            println!("OK property={} replay skipped: {}", id, w);
            RunResult { exit: 0 }
        }
        Verdict::Pass => {
            println!("OK property={} replay passed (labels {:?})", id, obs.labels);
            RunResult { exit: 0 }
        }
    }
}

/// Maps an index drawn from 0..=65535 monotonically onto 0..len (shrinks towards 0)
pub fn pick_index(i: u16, len: usize) -> usize {
    if len == 0 {
        0
    } else {
        ((i as usize) * len) >> 16
    }
}

pub fn boxed<S: Strategy + 'static>(s: S) -> BoxedStrategy<S::Value> {
    s.boxed()
}
