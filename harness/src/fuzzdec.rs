//! Byte-level entry points for the libFuzzer targets (and for replaying their artifacts outside
//! libFuzzer). Each target decodes the input with `arbitrary::Unstructured` into the SAME case types
//! the proptest generators produce and runs the SAME checks: the semantic oracle is inside the target.

use crate::engine::{catch, Obs, Property, Verdict};
use crate::gen::{self, Msg};
use crate::props::{c02, c04, c05, c09, c12, c13, c14};
use crate::refmodel::hpke_ref::{AeadId, KdfId, KemId, Suite};
use crate::suite::SerKind;
use crate::util::Bytes;
use arbitrary::Unstructured;

pub const TARGETS: [&str; 5] = ["fz_deser", "fz_open", "fz_receiver", "fz_sender", "fz_session"];

#[derive(Debug, Clone)]
pub struct FuzzFailure {
    pub property: String,
    pub sig: String,
    pub msg: String,
    pub case_json: String,
}

#[derive(Default, Debug, Clone)]
pub struct FuzzInfo {
    pub nontrivial: bool,
    pub labels: Vec<String>,
}

fn run<P: Property>(p: &P, case: &P::Case, info: &mut FuzzInfo) -> Option<FuzzFailure> {
    let mut obs = Obs::default();
    let v = match catch(|| p.check(case, &mut obs)) {
        Ok(v) => v,
        Err(m) => Verdict::fail(format!("{}/panic", p.id()), format!("the check panicked: {}", m)),
    };
    info.nontrivial |= obs.nontrivial && !matches!(v, Verdict::Skip(_));
    info.labels.extend(obs.labels);
    match v {
        Verdict::Fail { sig, msg } => Some(FuzzFailure { property: p.id().to_string(), sig, msg, case_json: serde_json::to_string(case).unwrap_or_default() }),
        _ => None,
    }
}

fn kem_of(b: u8) -> KemId {
    KemId::ALL[(b % 4) as usize]
}
fn kdf_of(b: u8) -> KdfId {
    KdfId::ALL[(b % 3) as usize]
}

fn take(u: &mut Unstructured, max: usize) -> Vec<u8> {
    let n = u.int_in_range(0..=max).unwrap_or(0).min(u.len());
    u.bytes(n).map(|b| b.to_vec()).unwrap_or_default()
}

pub fn fz_deser(data: &[u8], info: &mut FuzzInfo) -> Option<FuzzFailure> {
    if data.is_empty() {
        return None;
    }
    let sel = data[0];
    let kem = kem_of(sel);
    let kind = [SerKind::Pk, SerKind::Sk, SerKind::Enc, SerKind::Tag][((sel >> 2) % 4) as usize];
    let aead = AeadId::ALL[((sel >> 4) % 4) as usize];
    let bytes = Bytes(data[1..].to_vec());
    if kem != KemId::X25519 && kind != SerKind::Tag {
        let c = c09::Case { kem, kind, how: "fuzz".into(), bytes: bytes.clone() };
        if let Some(f) = run(&c09::P, &c, info) {
            return Some(f);
        }
    }
    let c = c12::Case { kem, aead, kind, op: c12::Op::Accepted { bytes: bytes.clone() } };
    if let Some(f) = run(&c12::P, &c, info) {
        return Some(f);
    }
    let c = c13::Case::FromBytes { kem, aead, kind, bytes };
    run(&c13::P, &c, info)
}

pub fn fz_open(data: &[u8], info: &mut FuzzInfo) -> Option<FuzzFailure> {
    let mut u = Unstructured::new(data);
    let s0: u8 = u.arbitrary().ok()?;
    let s1: u8 = u.arbitrary().ok()?;
    let suites = Suite::sealing36();
    // keep the KEM cheap most of the time: the fuzzer's budget goes into the byte-level paths
    let mut suite = suites[(s0 as usize) % suites.len()];
    if s1 & 0x40 == 0 {
        suite.kem = if s1 & 0x20 == 0 { KemId::X25519 } else { KemId::P256 };
    }
    let mode = s1 & 3;
    let sess = gen::cell_session(suite, mode, 0xf0);
    let enc = if s1 & 4 != 0 { Some(Bytes(take(&mut u, suite.kem.npk() + 2))) } else { None };
    let pk_s = if s1 & 8 != 0 { Some(Bytes(take(&mut u, suite.kem.npk() + 2))) } else { None };
    let mut sess = sess;
    if pk_s.is_some() {
        sess.mode |= 2;
    }
    let tag = Bytes(take(&mut u, 18));
    let aad = Bytes(take(&mut u, 40));
    let ct = Bytes(u.take_rest().to_vec());
    let pos = if s1 & 0x10 != 0 && enc.is_none() && pk_s.is_none() { Some(u64::MAX - (s0 % 3) as u64) } else { None };
    let c = c13::Case::Receiver { sess, enc, pk_s, ct, aad, tag, pos, enc_rel: if s1 & 0x80 != 0 { 1 + s0 % 5 } else { 0 } };
    run(&c13::P, &c, info)
}

pub fn fz_receiver(data: &[u8], info: &mut FuzzInfo) -> Option<FuzzFailure> {
    let mut u = Unstructured::new(data);
    let s0: u8 = u.arbitrary().ok()?;
    let s1: u8 = u.arbitrary().ok()?;
    let aead = AeadId::SEALING[(s0 % 3) as usize];
    let kem = if s0 & 0x80 != 0 { KemId::P256 } else { KemId::X25519 };
    let suite = Suite { kem, kdf: kdf_of(s0 >> 2), aead };
    let sess = gen::cell_session(suite, s1 & 3, 0xf1);
    let positions = gen::boundary_positions();
    let start = match (s1 >> 2) & 3 {
        0 => 0,
        1 => positions[(u.arbitrary::<u8>().unwrap_or(0) as usize) % positions.len()],
        2 => u64::MAX - (u.arbitrary::<u8>().unwrap_or(0) % 6) as u64,
        _ => u.arbitrary::<u64>().unwrap_or(0),
    };
    let npool = 1 + (s1 >> 4) as usize % 6;
    let mut pool = Vec::new();
    for i in 0..npool {
        let l = u.arbitrary::<u8>().unwrap_or(3) as usize % 48;
        pool.push(Msg { pt: Bytes(gen::fill(l, 9, i as u64)), aad: Bytes(gen::fill(i % 3, 9, 7)) });
    }
    let mut ops = Vec::new();
    while !u.is_empty() && ops.len() < 48 {
        let k: u8 = u.arbitrary().unwrap_or(0);
        let p: u16 = u.arbitrary().unwrap_or(0);
        let kind = match k % 10 {
            0 | 1 => c05::Kind::Next,
            2 => c05::Kind::Replay(p),
            3 => c05::Kind::Future(p),
            4 => c05::Kind::TamperCt(p),
            5 => c05::Kind::TamperTag(p as u8),
            6 => c05::Kind::WrongAad,
            7 => c05::Kind::Short(p as u8),
            8 => c05::Kind::Aliased(p as u8),
            _ => c05::Kind::Garbage(p, p as u64),
        };
        ops.push(c05::Delivery { kind, in_place: k & 0x80 != 0 });
    }
    let c = c05::Case { sess, spy: s0 & 0x40 != 0, start, pool, ops };
    run(&c05::P, &c, info)
}

/// Sender histories (C04): seals through both forms, exports, hook jumps to positions chosen by the
/// fuzzer (boundary table index or raw u64), bursts
pub fn fz_sender(data: &[u8], info: &mut FuzzInfo) -> Option<FuzzFailure> {
    let mut u = Unstructured::new(data);
    let s0: u8 = u.arbitrary().ok()?;
    let s1: u8 = u.arbitrary().ok()?;
    let aead = AeadId::SEALING[(s0 % 3) as usize];
    let kem = if s0 & 0x80 != 0 { KemId::P256 } else { KemId::X25519 };
    let suite = Suite { kem, kdf: kdf_of(s0 >> 2), aead };
    let sess = gen::cell_session(suite, s1 & 3, 0xf4);
    let positions = gen::boundary_positions();
    let mut ops = Vec::new();
    while !u.is_empty() && ops.len() < 40 {
        let k: u8 = u.arbitrary().unwrap_or(0);
        let op = match k % 8 {
            0 | 1 | 2 => {
                let l = u.arbitrary::<u8>().unwrap_or(0) as usize % 64;
                c04::Op::Seal { pt: Bytes(gen::fill(l, 9, k as u64)), aad: Bytes(gen::fill((k >> 4) as usize, 9, 5)), in_place: k & 0x40 != 0 }
            }
            3 => c04::Op::Export,
            4 => c04::Op::JumpTo(positions[(u.arbitrary::<u8>().unwrap_or(0) as usize) % positions.len()]),
            5 => c04::Op::JumpTo(u.arbitrary::<u64>().unwrap_or(0)),
            6 => c04::Op::JumpTo(u64::MAX - (u.arbitrary::<u8>().unwrap_or(0) % 8) as u64),
            _ => c04::Op::Burst(1 + (u.arbitrary::<u8>().unwrap_or(0) % 24) as u16),
        };
        ops.push(op);
    }
    let c = c04::Case { sess, spy: s1 & 4 != 0, ops };
    run(&c04::P, &c, info)
}

pub fn fz_session(data: &[u8], info: &mut FuzzInfo) -> Option<FuzzFailure> {
    let mut u = Unstructured::new(data);
    let s0: u8 = u.arbitrary().ok()?;
    let s1: u8 = u.arbitrary().ok()?;
    let s2: u8 = u.arbitrary().ok()?;
    let suites = Suite::all48();
    let mut suite = suites[(s0 as usize) % suites.len()];
    if s1 & 0x80 == 0 {
        suite.kem = if s1 & 0x40 == 0 { KemId::X25519 } else { KemId::P256 };
    }
    let mode = s1 & 3;
    let mut sess = gen::cell_session(suite, mode, s2 as u64);
    // key material from a small seeded set (memoised by the harness), so that the fuzzer's budget
    // goes into the session logic rather than into the reference model's scalar multiplications
    let kr: u8 = u.arbitrary().unwrap_or(0);
    sess.ikm_r = Bytes(gen::fill(32 + (kr as usize % 3), 9, (kr % 16) as u64));
    sess.ikm_s = Bytes(gen::fill(32, 9, 100 + (kr >> 4) as u64));
    let psk = take(&mut u, 40);
    let psk_id = take(&mut u, 40);
    if !psk.is_empty() && !psk_id.is_empty() {
        sess.psk = Bytes(psk);
        sess.psk_id = Bytes(psk_id);
    }
    sess.info = Bytes(take(&mut u, 64));
    let nmsg = (s1 >> 2) as usize % 4;
    let mut msgs = Vec::new();
    for _ in 0..nmsg {
        msgs.push(Msg { pt: Bytes(take(&mut u, 80)), aad: Bytes(take(&mut u, 24)) });
    }
    let nh = suite.kdf.nh();
    let el: u16 = u.arbitrary().unwrap_or(32);
    let exports = vec![c02::ExportReq { ctx: Bytes(take(&mut u, 16)), len: (el as usize) % (255 * nh + 1) }];
    let c = c02::Case::Session { sess: sess.clone(), msgs: msgs.clone(), exports, start: 0 };
    if let Some(f) = run(&c02::P, &c, info) {
        return Some(f);
    }
    let fault = match s2 % 8 {
        0 | 1 | 2 => c14::Fault::None,
        3 => c14::Fault::Tamper { pos: u.arbitrary().unwrap_or(0) },
        4 => c14::Fault::Short { keep: u.arbitrary().unwrap_or(0) },
        5 => c14::Fault::WrongInfo,
        6 => c14::Fault::WrongAad,
        _ => c14::Fault::SmallOrderEnc { idx: s2 >> 3 },
    };
    let m = msgs.first().cloned().unwrap_or(Msg { pt: Bytes(b"p".to_vec()), aad: Bytes(vec![]) });
    let mut faults = vec![fault];
    if s2 & 0x40 != 0 {
        faults.push(c14::Fault::Short { keep: s0 });
    }
    faults.retain(|f| *f != c14::Fault::None);
    let c = c14::Case { sess, pt: m.pt, aad: m.aad, faults, spy: s2 & 0x80 != 0, ctx_pos: if s2 & 0x20 != 0 { Some(u64::MAX - (s0 % 3) as u64) } else { None } };
    run(&c14::P, &c, info)
}

pub fn fuzz_one(target: &str, data: &[u8], info: &mut FuzzInfo) -> Option<FuzzFailure> {
    match target {
        "fz_deser" => fz_deser(data, info),
        "fz_open" => fz_open(data, info),
        "fz_receiver" => fz_receiver(data, info),
        "fz_sender" => fz_sender(data, info),
        "fz_session" => fz_session(data, info),
        _ => None,
    }
}

/// libFuzzer entry: panics (-> crash artifact) on a violation
pub fn fuzz_entry(target: &str, data: &[u8]) {
    static HOOK: std::sync::Once = std::sync::Once::new();
    HOOK.call_once(crate::engine::install_panic_hook);
    let mut info = FuzzInfo::default();
    if let Some(f) = fuzz_one(target, data, &mut info) {
        eprintln!("FUZZ-VIOLATION property={} signature={} {}", f.property, f.sig, f.msg);
        std::process::abort();
    }
}

/// Small valid-ish inputs so that campaigns do not start from nothing
pub fn seeds(target: &str) -> Vec<Vec<u8>> {
    let mut out: Vec<Vec<u8>> = Vec::new();
    match target {
        "fz_deser" => {
            for (ki, kem) in KemId::ALL.iter().enumerate() {
                let (sk, pk) = crate::refmodel::hpke_ref::derive_key_pair(*kem, b"fuzz seed");
                for (kind, bytes) in [(0u8, pk.clone()), (1, sk.clone()), (2, pk.clone())] {
                    let mut v = vec![ki as u8 | (kind << 2)];
                    v.extend_from_slice(&bytes);
                    out.push(v);
                }
                if *kem != KemId::X25519 {
                    for (how, b) in c09::constructed_public(*kem, 5).into_iter().filter(|(h, _)| !h.starts_with("tag-byte") && !h.starts_with("corner:")) {
                        let _ = how;
                        let mut v = vec![ki as u8];
                        v.extend_from_slice(&b);
                        out.push(v);
                    }
                    for (how, b) in c09::constructed_scalar(*kem, 5).into_iter().filter(|(h, _)| !h.starts_with("scalar:n-bitflip")) {
                        let _ = how;
                        let mut v = vec![ki as u8 | (1 << 2)];
                        v.extend_from_slice(&b);
                        out.push(v);
                    }
                }
            }
            for a in 0..4u8 {
                let mut v = vec![(3 << 2) | (a << 4)];
                v.extend_from_slice(&[7u8; 16]);
                out.push(v);
            }
        }
        _ => {
            for n in [0usize, 3, 8, 24, 40, 64, 120, 200] {
                for s in 0..3u64 {
                    out.push(gen::fill(n, 9, s + n as u64));
                }
            }
        }
    }
    out
}
