#!/usr/bin/env python3
"""Sensitivity / false-alarm driver (DESIGN.md section 8).

For every selected mutant (selftest/mutants.json) or neutral edit (selftest/neutral.json) or seeded
patch (/verif/seeded/<id>/patch.diff): copy /repo to a scratch tree outside /repo and /verif, apply
the edit, run the selected properties' quick checks against the scratch tree (HPKE_TREE), record the
exit codes, delete the scratch tree.  Nothing under /repo is touched.

  run.py [--lanes N] [--only M01,M02|all] [--kind mutants|neutral|seeded] [--props C01,C02|expect|all]
         [--tier quick] [--out FILE]

Expectation: a mutant must make every check listed in its "expect" (that is registered here) exit 1
with a VIOLATION line; a neutral edit must leave every check at exit 0.
"""
import argparse, json, os, re, shutil, subprocess, sys, time, concurrent.futures, threading

VERIF = os.path.dirname(os.path.dirname(os.path.abspath(__file__)))
REPO = "/repo"
SCRATCH = os.environ.get("SELFTEST_SCRATCH", "/tmp/hv-selftest")


def registered_props():
    m = json.load(open(os.path.join(VERIF, "MANIFEST.json")))
    return [c["property_id"] for c in m["checks"]]


def apply_edits(tree, edits):
    for e in edits:
        p = os.path.join(tree, e["file"])
        s = open(p).read()
        occ = e.get("occurrence")
        if e.get("regex"):
            pat = re.compile(e["find"], re.S)
            n = len(pat.findall(s))
            if n == 0:
                raise RuntimeError("edit does not apply: %s" % e["find"][:60])
            if occ == "all":
                s = pat.sub(e["replace"], s)
            elif occ is None:
                if n != 1:
                    raise RuntimeError("regex not unique (%d): %s" % (n, e["find"][:60]))
                s = pat.sub(e["replace"], s, count=1)
            else:
                ms = list(pat.finditer(s))
                m = ms[int(occ) - 1]
                s = s[: m.start()] + m.expand(e["replace"]) + s[m.end():]
        else:
            n = s.count(e["find"])
            if n == 0:
                raise RuntimeError("edit does not apply: %s" % e["find"][:60])
            if occ == "all":
                s = s.replace(e["find"], e["replace"])
            elif occ is None:
                if n != 1:
                    raise RuntimeError("find not unique (%d): %s" % (n, e["find"][:60]))
                s = s.replace(e["find"], e["replace"], 1)
            else:
                idx = -1
                for _ in range(int(occ)):
                    idx = s.index(e["find"], idx + 1)
                s = s[:idx] + e["replace"] + s[idx + len(e["find"]):]
        open(p, "w").write(s)


def make_tree(dst):
    if os.path.exists(dst):
        shutil.rmtree(dst)
    os.makedirs(dst)
    for name in os.listdir(REPO):
        if name in (".git", "target"):
            continue
        src = os.path.join(REPO, name)
        if os.path.isdir(src):
            shutil.copytree(src, os.path.join(dst, name))
        else:
            shutil.copy2(src, os.path.join(dst, name))


def run_item(item, kind, props, lane, tier, log):
    iid = item["id"]
    lane_dir = os.path.join(SCRATCH, "lane%d" % lane)
    tree = os.path.join(lane_dir, "tree")
    root = os.path.join(lane_dir, "root")
    target = os.path.join(lane_dir, "target")
    # warm-up: a driver built against the pristine tree (C17 falls back to it when a mutated tree
    # no longer compiles with all features; see check.sh)
    if not os.path.exists(os.path.join(target, "release", "hv.last")):
        wenv = dict(os.environ)
        wenv.update({"VERIF_TARGET": target, "VERIF_ROOT": os.path.join(lane_dir, "warm")})
        wenv.pop("HPKE_TREE", None)
        os.makedirs(os.path.join(lane_dir, "warm"), exist_ok=True)
        for name in ("corpus", "known_findings.txt", "probes"):
            src = os.path.join(VERIF, name)
            dstp = os.path.join(lane_dir, "warm", name)
            if os.path.exists(src) and not os.path.exists(dstp):
                os.symlink(src, dstp)
        subprocess.run([os.path.join(VERIF, "check.sh"), "C12", "quick"], env=wenv, capture_output=True, text=True)
    make_tree(tree)
    if os.path.exists(root):
        shutil.rmtree(root)
    os.makedirs(root)
    for name in ("corpus", "known_findings.txt", "probes"):
        src = os.path.join(VERIF, name)
        if os.path.exists(src):
            os.symlink(src, os.path.join(root, name))
    try:
        if kind in ("seeded", "neutralpatch"):
            subprocess.run(["git", "apply", "--unsafe-paths", "--directory=" + tree, item["patch"]], check=True, cwd="/")
        else:
            apply_edits(tree, item["edits"])
    except Exception as ex:
        return {"id": iid, "error": "apply failed: %s" % ex}
    res = {"id": iid, "checks": {}}
    env = dict(os.environ)
    env.update({"HPKE_TREE": tree, "VERIF_ROOT": root, "VERIF_TARGET": target,
                "VERIF_TARGET_BASE": os.path.join(lane_dir, "tbase"), "VERIF_SEED": os.environ.get("VERIF_SEED", "1")})
    for pid in props:
        t0 = time.time()
        pr = subprocess.run([os.path.join(VERIF, "check.sh"), pid, tier], env=env, capture_output=True, text=True)
        out = pr.stdout + pr.stderr
        viol = [l for l in out.splitlines() if l.startswith("VIOLATION")]
        sig = [l.strip() for l in out.splitlines() if l.strip().startswith("signature:")]
        res["checks"][pid] = {"exit": pr.returncode, "violation": bool(viol), "sig": sig[:1], "wall": round(time.time() - t0, 1),
                              "tail": out.strip().splitlines()[-3:] if pr.returncode == 2 else []}
        with log:
            print("  %-38s %s exit=%d %s %.0fs" % (iid, pid, pr.returncode, (sig[:1] or [""])[0][:80], time.time() - t0), flush=True)
    shutil.rmtree(tree, ignore_errors=True)
    return res


def main():
    ap = argparse.ArgumentParser()
    ap.add_argument("--lanes", type=int, default=4)
    ap.add_argument("--only", default="all")
    ap.add_argument("--kind", default="mutants")
    ap.add_argument("--props", default="expect")
    ap.add_argument("--tier", default="quick")
    ap.add_argument("--out", default=None)
    ap.add_argument("--keep-target", action="store_true")
    a = ap.parse_args()
    reg = registered_props()
    if a.kind == "mutants":
        items = json.load(open(os.path.join(VERIF, "selftest/mutants.json")))["mutants"]
    elif a.kind == "neutral":
        items = json.load(open(os.path.join(VERIF, "selftest/neutral.json")))["neutral"]
    elif a.kind == "neutralpatch":
        # behaviour-preserving refactorings written by sub-agents: selftest/neutral_patches/<id>/patch.diff
        items = []
        nd = os.path.join(VERIF, "selftest", "neutral_patches")
        for d in sorted(os.listdir(nd)) if os.path.isdir(nd) else []:
            pp = os.path.join(nd, d, "patch.diff")
            if os.path.exists(pp):
                items.append({"id": d, "patch": pp, "expect": []})
    else:
        items = []
        sd = os.path.join(VERIF, "seeded")
        for d in sorted(os.listdir(sd)) if os.path.isdir(sd) else []:
            mp = os.path.join(sd, d, "meta.json")
            if os.path.exists(mp):
                meta = json.load(open(mp))
                items.append({"id": d, "patch": os.path.join(sd, d, "patch.diff"), "expect": meta.get("breaks", [])})
    if a.only != "all":
        sel = a.only.split(",")
        items = [i for i in items if any(i["id"] == s or i["id"].startswith(s + "-") for s in sel)]
    jobs = []
    for it in items:
        if a.props == "expect":
            props = [p for p in it.get("expect", reg) if p in reg] if a.kind not in ("neutral", "neutralpatch") else reg
        elif a.props == "all":
            props = reg
        elif a.props == "allfast":
            props = [p for p in reg if p != "C17" or p in it.get("expect", [])]
        else:
            props = [p for p in a.props.split(",") if p in reg]
        if props:
            jobs.append((it, props))
    os.makedirs(SCRATCH, exist_ok=True)
    log = threading.Lock()
    lanes = list(range(a.lanes))
    lane_lock = threading.Lock()
    results = []

    def work(job):
        with lane_lock:
            lane = lanes.pop()
        try:
            return run_item(job[0], a.kind, job[1], lane, a.tier, log)
        finally:
            with lane_lock:
                lanes.append(lane)

    with concurrent.futures.ThreadPoolExecutor(max_workers=a.lanes) as ex:
        for r in ex.map(work, jobs):
            results.append(r)
    if not a.keep_target:
        shutil.rmtree(SCRATCH, ignore_errors=True)
    bad = 0
    print("\n== summary (%s) ==" % a.kind)
    neutral_like = a.kind in ("neutral", "neutralpatch")
    for r in results:
        if "error" in r:
            print("%-40s ERROR %s" % (r["id"], r["error"]))
            bad += 1
            continue
        for pid, c in r["checks"].items():
            want = 0 if a.kind in ("neutral", "neutralpatch") else 1
            ok = c["exit"] == want
            if not ok:
                bad += 1
            print("%-40s %s exit=%d %s %s" % (r["id"], pid, c["exit"], "ok" if ok else "UNEXPECTED", " ".join(c["sig"]) if c["sig"] else " ".join(c["tail"])))
    if a.out:
        json.dump(results, open(a.out, "w"), indent=1)
    print("unexpected: %d" % bad)
    sys.exit(1 if bad else 0)


if __name__ == "__main__":
    main()
