#!/usr/bin/env python3
"""Builds the detection tables (DESIGN.md section 13) from the outputs of selftest/run.py.
usage: mk_tables.py <mutants out> <seeded out>[,<seeded out 2>...] <neutral out> [<old-checks seeded out>[,...]]  > selftest/DETECTION.md
(several seeded outputs are merged; a later file overrides an earlier one per seed and check)"""
import json, sys, os
VERIF = os.path.dirname(os.path.dirname(os.path.abspath(__file__)))
mut_spec = {m["id"]: m for m in json.load(open(os.path.join(VERIF, "selftest/mutants.json")))["mutants"]}

def load(p):
    try:
        return json.load(open(p))
    except Exception:
        return []

def load_merged(arg):
    merged = {}
    for f in arg.split(","):
        for r in load(f):
            if "checks" not in r:
                continue
            merged.setdefault(r["id"], {"id": r["id"], "checks": {}})["checks"].update(r["checks"])
    return [merged[k] for k in sorted(merged)]

mut, seeded, neutral = load(sys.argv[1]), load_merged(sys.argv[2]), load(sys.argv[3])
old = load_merged(sys.argv[4]) if len(sys.argv) > 4 and sys.argv[4] != "-" else []
npatch = load(sys.argv[5]) if len(sys.argv) > 5 else []
print("### 13.1 Catalogue mutants (73) against the checks they are tagged for\n")
print("| mutant | what it changes | expected | result (signature of the first violation) |\n|---|---|---|---|")
n_ok = n_all = 0
for r in mut:
    spec = mut_spec.get(r["id"], {})
    cells = []
    for pid, c in r.get("checks", {}).items():
        n_all += 1
        ok = c["exit"] == 1
        n_ok += ok
        sig = (c["sig"][0].replace("signature: ", "") if c["sig"] else "")
        cells.append("%s: %s" % (pid, ("**caught** `%s`" % sig) if ok else ("exit %d" % c["exit"])))
    note = spec.get("note", "").split(" [expectation corrected")[0]
    print("| %s | %s | %s | %s |" % (r["id"], note, ", ".join(spec.get("expect", [])), "; ".join(cells)))
print("\n%d of %d (mutant, expected check) pairs caught.\n" % (n_ok, n_all))

print("### 13.2 Seeded changes from independent sub-agents (%d) against all checks\n" % len(seeded))
print("`target` = the check of the property the change was written to break; `also` = other checks that report it. C17 was only run where it is the target; the 54 seeds of rounds five to seven (`-x`, `-y`, `-z`) were run against their target check only.\n")
print("| seed | what it changes / what it needs | target | also caught by | inconclusive (exit 2) |\n|---|---|---|---|---|")
for r in seeded:
    sid = r["id"]
    meta = {}
    try:
        meta = json.load(open(os.path.join(VERIF, "seeded", sid, "meta.json")))
    except Exception:
        pass
    tgt = sid[:3]
    ch = r.get("checks", {})
    t = ch.get(tgt, {})
    tcell = ("**caught** `%s`" % (t["sig"][0].replace("signature: ", "") if t.get("sig") else "")) if t.get("exit") == 1 else ("MISSED (exit %s)" % t.get("exit"))
    also = sorted(p for p, c in ch.items() if c["exit"] == 1 and p != tgt)
    inc = sorted(p for p, c in ch.items() if c["exit"] == 2)
    summ = (meta.get("summary", "")[:230] + "…") if len(meta.get("summary", "")) > 230 else meta.get("summary", "")
    print("| %s | %s | %s | %s | %s |" % (sid, summ.replace("|", "/").replace("\n", " "), tcell, " ".join(also), " ".join(inc)))

print("\n### 13.3 Neutral edits (10) against the checks: every check must stay silent\n")
print("| neutral edit | checks run | alarms |\n|---|---|---|")
for r in neutral:
    ch = r.get("checks", {})
    bad = ["%s exit %d" % (p, c["exit"]) for p, c in ch.items() if c["exit"] != 0]
    print("| %s | %d | %s |" % (r["id"], len(ch), ", ".join(bad) if bad else "none"))

if old:
    print("\n### 13.4 Later-round seeds: the targeted check before and after the round\n")
    print("`before` = the check as committed before the descriptions of that batch were read (commit bfd5a8c for the `-c`/`-d` seeds, f86ca1e for the three `-w` seeds that prompted a change, 002433c for the `-v` seeds, 00bfc52 for `-x`, 77eee19 for `-y` (C10-y's old-check run overlapped an edit of C10 and is not to be trusted as `caught`), 2656982 for `-z`); `after` = the committed check.\n")
    print("| seed | before | after |\n|---|---|---|")
    new = {r["id"]: r for r in seeded}
    for r in old:
        sid = r["id"]; tgt = sid[:3]
        b = r["checks"].get(tgt, {}).get("exit")
        a = new.get(sid, {}).get("checks", {}).get(tgt, {}).get("exit")
        f = lambda e: "caught" if e == 1 else ("missed" if e == 0 else "exit %s" % e)
        print("| %s | %s | %s |" % (sid, f(b), f(a)))

if npatch:
    print("\n### 13.5 Behaviour-preserving refactorings written by independent sub-agents (%d) against all checks\n" % len(npatch))
    print("Each agent was asked for four bold but strictly behaviour-preserving restructurings of one area of the crate (`selftest/neutral_patches/<id>/{patch.diff, meta.json}`); they verified equivalence with their own differential transcripts. Every check must stay silent.\n")
    print("| refactoring | what was restructured | checks run | alarms |\n|---|---|---|---|")
    for r in npatch:
        ch = r.get("checks", {})
        bad = ["%s exit %d" % (p, c["exit"]) for p, c in ch.items() if c["exit"] != 0]
        summ = ""
        try:
            summ = json.load(open(os.path.join(VERIF, "selftest", "neutral_patches", r["id"], "meta.json"))).get("summary", "")
        except Exception:
            pass
        summ = (summ[:260] + "…") if len(summ) > 260 else summ
        print("| %s | %s | %d | %s |" % (r["id"], summ.replace("|", "/").replace("\n", " "), len(ch), ", ".join(bad) if bad else "none"))
