use core::marker::PhantomData;
use hpke::aead::{AeadCtxS, AesGcm128, ChaCha20Poly1305};
use hpke::kdf::HkdfSha256;
use hpke::kem::{DhP256HkdfSha256, X25519HkdfSha256};

struct Probe<T>(PhantomData<T>);
trait Fallback {
    fn is_clone(&self) -> bool {
        false
    }
}
impl<T> Fallback for Probe<T> {}
impl<T: Clone> Probe<T> {
    // inherent methods win over trait methods: chosen exactly when T: Clone
    fn is_clone(&self) -> bool {
        true
    }
}

fn main() {
    let a = Probe::<AeadCtxS<ChaCha20Poly1305, HkdfSha256, X25519HkdfSha256>>(PhantomData).is_clone();
    let b = Probe::<AeadCtxS<AesGcm128, HkdfSha256, DhP256HkdfSha256>>(PhantomData).is_clone();
    println!("SENDER_CONTEXT_CLONE={}", a || b);
    println!("DONE");
}
