//! C16 guard-off release probe. For a few suites, roles and modes: build a context on the heap,
//! locate its base nonce and exporter secret in the live allocation (the values are recomputed with
//! the crate's public, doc-hidden KDF helpers), drop the Box, and look at the freed block.
//! A control object with the same secrets and NO wiping Drop shows whether this observer can see
//! anything in this build; without that the result is "unobservable".
//!
//! Output: one line per probe: `RESULT <label> control=<SEEN|UNSEEN> nonce=<WIPED|FOUND|NA|UNLOCATED> exporter=<...>`
use hpke::aead::{Aead, AesGcm128, AesGcm256, ChaCha20Poly1305, ExportOnlyAead};
use hpke::kdf::{labeled_extract, HkdfSha256, HkdfSha512, Kdf, LabeledExpand};
use hpke::kem::{DhP256HkdfSha256, Kem, X25519HkdfSha256};
use hpke::{OpModeR, OpModeS, PskBundle, Serializable};
use rand_core::{CryptoRng, RngCore};

struct Script(u64);
impl RngCore for Script {
    fn next_u32(&mut self) -> u32 {
        self.next_u64() as u32
    }
    fn next_u64(&mut self) -> u64 {
        let mut b = [0u8; 8];
        self.fill_bytes(&mut b);
        u64::from_le_bytes(b)
    }
    fn fill_bytes(&mut self, d: &mut [u8]) {
        for x in d.iter_mut() {
            self.0 = self.0.wrapping_mul(6364136223846793005).wrapping_add(1442695040888963407);
            *x = (self.0 >> 33) as u8;
        }
    }
}
impl CryptoRng for Script {}

/// True when any 8-byte window of `needle` occurs in `hay`. Windows rather than the whole value:
/// the allocator overwrites the first 16 bytes of a freed block with its own links, which may clip a
/// secret that happens to sit at the start of the value.
fn find(hay: &[u8], needle: &[u8]) -> bool {
    if needle.len() < 8 || hay.len() < 8 {
        return false;
    }
    needle.windows(8).any(|w| hay.windows(8).any(|h| h == w))
}

#[inline(never)]
fn image(p: *const u8, n: usize) -> Vec<u8> {
    (0..n).map(|i| unsafe { std::ptr::read_volatile(p.add(i)) }).collect()
}

/// Same secrets, no wiping Drop: must be visible in the freed block if the observer works at all
#[repr(C)]
struct Control {
    _pad: [u64; 4],
    nonce: [u8; 12],
    exporter: [u8; 64],
    _tail: [u64; 8],
}

#[inline(never)]
fn control_visible(nonce: &[u8], exporter: &[u8]) -> bool {
    let c = Control { _pad: [7; 4], nonce: [0; 12], exporter: [0; 64], _tail: [9; 8] };
    let mut b = std::hint::black_box(Box::new(c));
    let el = exporter.len().min(64);
    let nl = nonce.len().min(12);
    // the secrets are put into the heap object with volatile writes: these stores exist for sure
    unsafe {
        let e = b.exporter.as_mut_ptr();
        for i in 0..el {
            std::ptr::write_volatile(e.add(i), exporter[i]);
        }
        let q = b.nonce.as_mut_ptr();
        for i in 0..nl {
            std::ptr::write_volatile(q.add(i), nonce[i]);
        }
    }
    let p = &*b as *const Control as *const u8;
    let n = std::mem::size_of::<Control>();
    drop(std::hint::black_box(b));
    let img = image(p, n);
    find(&img, &exporter[..el])
}

/// Recomputes (base_nonce, exporter_secret) of RFC 9180 KeySchedule with the crate's own helpers
fn key_schedule<A: Aead, K: Kdf, M: Kem>(mode: u8, shared_secret: &[u8], info: &[u8], psk: &[u8], psk_id: &[u8], nn: usize, nh: usize) -> (Vec<u8>, Vec<u8>) {
    let mut suite_id = b"HPKE".to_vec();
    suite_id.extend_from_slice(&M::KEM_ID.to_be_bytes());
    suite_id.extend_from_slice(&K::KDF_ID.to_be_bytes());
    suite_id.extend_from_slice(&A::AEAD_ID.to_be_bytes());
    let (psk_id_hash, _) = labeled_extract::<K>(&[], &suite_id, b"psk_id_hash", psk_id);
    let (info_hash, _) = labeled_extract::<K>(&[], &suite_id, b"info_hash", info);
    let mut ctx = vec![mode];
    ctx.extend_from_slice(&psk_id_hash);
    ctx.extend_from_slice(&info_hash);
    let (_, secret) = labeled_extract::<K>(shared_secret, &suite_id, b"secret", psk);
    let mut nonce = vec![0u8; nn];
    let mut exp = vec![0u8; nh];
    secret.labeled_expand(&suite_id, b"base_nonce", &ctx, &mut nonce).unwrap();
    secret.labeled_expand(&suite_id, b"exp", &ctx, &mut exp).unwrap();
    (nonce, exp)
}

/// Offsets at which the whole value occurs
fn offsets(hay: &[u8], needle: &[u8]) -> Vec<usize> {
    if needle.is_empty() || hay.len() < needle.len() {
        return vec![];
    }
    (0..=hay.len() - needle.len()).filter(|&i| &hay[i..i + needle.len()] == needle).collect()
}

/// FOUND only when EVERY place that held the secret while the value was alive still holds it in the
/// freed block (ignoring the first 16 bytes, which the allocator overwrites). If at least one copy
/// is gone the owning field was wiped; a surviving second copy is then stale stack content inside
/// uninitialised storage of the value (see DESIGN.md 12.2), which is not judged.
fn verdict(live: &[u8], freed: &[u8], secret: &[u8]) -> &'static str {
    if secret.is_empty() {
        return "NA";
    }
    let l = offsets(live, secret);
    if l.is_empty() {
        return "UNLOCATED";
    }
    let survives = |o: usize| -> bool {
        let mut compared = 0;
        for k in 0..secret.len() {
            if o + k >= 16 {
                compared += 1;
                if freed[o + k] != secret[k] {
                    return false;
                }
            }
        }
        compared >= 8
    };
    if l.iter().all(|&o| survives(o)) {
        "FOUND"
    } else {
        "WIPED"
    }
}

fn probe<A: Aead, K: Kdf, M: Kem>(label: &str, nn: usize, nh: usize, ops: usize) {
    let (sk_r, pk_r) = M::derive_keypair(b"c16 probe recipient ikm .........");
    let (sk_s, pk_s) = M::derive_keypair(b"c16 probe sender ikm ............");
    let psk = PskBundle::new(b"c16 probe psk...................", b"c16-id").unwrap();
    for mode in [0u8, 3u8] {
        let (ms, mr): (OpModeS<M>, OpModeR<M>) = if mode == 0 {
            (OpModeS::Base, OpModeR::Base)
        } else {
            (OpModeS::AuthPsk((sk_s.clone(), pk_s.clone()), psk), OpModeR::AuthPsk(pk_s.clone(), psk))
        };
        let info = b"c16 probe info";
        let mut rng = Script(16 + mode as u64);
        let (enc, snd) = match hpke::setup_sender::<A, K, M, _>(&ms, &pk_r, info, &mut rng) {
            Ok(x) => x,
            Err(_) => continue,
        };
        let ss = match M::decap(&sk_r, if mode == 0 { None } else { Some(&pk_s) }, &enc) {
            Ok(s) => s,
            Err(_) => continue,
        };
        let (p, pid): (&[u8], &[u8]) = if mode == 0 { (b"", b"") } else { (b"c16 probe psk...................", b"c16-id") };
        let (nonce, exporter) = key_schedule::<A, K, M>(mode, &ss.0, info, p, pid, nn, nh);
        let control = if control_visible(&nonce, &exporter) { "SEEN" } else { "UNSEEN" };
        // sender
        {
            let mut b = Box::new(snd);
            for k in 0..ops {
                if nn == 12 {
                    let mut buf = [k as u8; 9];
                    let _ = b.seal_in_place_detached(&mut buf, b"");
                }
            }
            let ptr = &*b as *const _ as *const u8;
            let n = std::mem::size_of_val(&*b);
            let live = image(ptr, n);
            std::hint::black_box(&b);
            drop(b);
            let freed = image(ptr, n);
            println!("RESULT {}/mode{}/sender/ops{} control={} nonce={} exporter={}", label, mode, ops, control, verdict(&live, &freed, if nn == 12 { &nonce } else { &[] }), verdict(&live, &freed, &exporter));
        }
        // receiver
        if let Ok(rcv) = hpke::setup_receiver::<A, K, M>(&mr, &sk_r, &enc, info) {
            let b = Box::new(rcv);
            let ptr = &*b as *const _ as *const u8;
            let n = std::mem::size_of_val(&*b);
            let live = image(ptr, n);
            std::hint::black_box(&b);
            drop(b);
            let freed = image(ptr, n);
            println!("RESULT {}/mode{}/receiver/ops0 control={} nonce={} exporter={}", label, mode, control, verdict(&live, &freed, if nn == 12 { &nonce } else { &[] }), verdict(&live, &freed, &exporter));
        }
        let _ = enc.to_bytes();
    }
}

fn main() {
    for ops in [0usize, 1] {
        probe::<ChaCha20Poly1305, HkdfSha256, X25519HkdfSha256>("x25519/sha256/chacha", 12, 32, ops);
        probe::<AesGcm128, HkdfSha512, X25519HkdfSha256>("x25519/sha512/aes128", 12, 64, ops);
        probe::<AesGcm256, HkdfSha256, DhP256HkdfSha256>("p256/sha256/aes256", 12, 32, ops);
        probe::<ExportOnlyAead, HkdfSha512, DhP256HkdfSha256>("p256/sha512/export", 0, 64, ops);
    }
    println!("DONE");
}
