//! C17 probe: calls a verification hook. It must compile only when hpke is built with
//! `--cfg hpke_verif`; with the guard off the crate must not expose the hook API.
use hpke::aead::{Aead, AeadCtxS};
use hpke::kdf::Kdf;
use hpke::kem::Kem;

pub fn uses_hook<A: Aead, K: Kdf, M: Kem>(s: &mut AeadCtxS<A, K, M>) -> (u64, bool) {
    s.verif_set_seq(7);
    s.verif_seq_state()
}
