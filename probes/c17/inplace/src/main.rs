//! C17 probe: uses ONLY the in-place interfaces (always present) of every enabled KEM, runs a fixed
//! scripted session per (KEM, KDF, AEAD, mode) and prints one transcript digest per KEM. The digest
//! of a KEM must not depend on which other features are enabled.
#![allow(dead_code)]
use hpke::aead::{Aead, AeadTag, AesGcm128, ChaCha20Poly1305, ExportOnlyAead};
use hpke::kdf::{HkdfSha256, HkdfSha384, HkdfSha512, Kdf};
use hpke::kem::Kem;
use hpke::{Deserializable, OpModeR, OpModeS, PskBundle, Serializable};
use rand_core::{CryptoRng, RngCore};

struct Script(u64);
impl RngCore for Script {
    fn next_u32(&mut self) -> u32 {
        self.next_u64() as u32
    }
    fn next_u64(&mut self) -> u64 {
        let mut b = [0u8; 8];
        self.fill_bytes(&mut b);
        u64::from_le_bytes(b)
    }
    fn fill_bytes(&mut self, d: &mut [u8]) {
        for x in d.iter_mut() {
            self.0 = self.0.wrapping_mul(6364136223846793005).wrapping_add(1442695040888963407);
            *x = (self.0 >> 33) as u8;
        }
    }
}
impl CryptoRng for Script {}

struct Fnv(u64);
impl Fnv {
    fn add(&mut self, b: &[u8]) {
        for x in b {
            self.0 ^= *x as u64;
            self.0 = self.0.wrapping_mul(0x100000001b3);
        }
        self.0 ^= 0xff;
        self.0 = self.0.wrapping_mul(0x100000001b3);
    }
}

fn session<A: Aead, K: Kdf, M: Kem>(h: &mut Fnv, sealing: bool) {
    let (sk_r, pk_r) = M::derive_keypair(b"c17 recipient ikm 0123456789abcdef");
    let (sk_s, pk_s) = M::derive_keypair(b"c17 sender ikm 0123456789abcdefgh");
    h.add(&pk_r.to_bytes());
    h.add(&sk_r.to_bytes());
    let psk = PskBundle::new(b"c17 pre-shared key material.....", b"c17 psk id").unwrap();
    for mode in 0..4u8 {
        let ms: OpModeS<M> = match mode {
            0 => OpModeS::Base,
            1 => OpModeS::Psk(psk),
            2 => OpModeS::Auth((sk_s.clone(), pk_s.clone())),
            _ => OpModeS::AuthPsk((sk_s.clone(), pk_s.clone()), psk),
        };
        let mr: OpModeR<M> = match mode {
            0 => OpModeR::Base,
            1 => OpModeR::Psk(psk),
            2 => OpModeR::Auth(pk_s.clone()),
            _ => OpModeR::AuthPsk(pk_s.clone(), psk),
        };
        let mut rng = Script(17 + mode as u64);
        let (enc, mut snd) = hpke::setup_sender::<A, K, M, _>(&ms, &pk_r, b"c17 info", &mut rng).unwrap();
        h.add(&enc.to_bytes());
        let enc2 = <M::EncappedKey as Deserializable>::from_bytes(&enc.to_bytes()).unwrap();
        let mut rcv = hpke::setup_receiver::<A, K, M>(&mr, &sk_r, &enc2, b"c17 info").unwrap();
        if sealing {
            for i in 0..3usize {
                let mut buf = [0x40u8 + i as u8; 37];
                let tag = snd.seal_in_place_detached(&mut buf[..11 * i + 3], b"aad").unwrap();
                h.add(&buf);
                h.add(&tag.to_bytes());
                let t2 = AeadTag::<A>::from_bytes(&tag.to_bytes()).unwrap();
                rcv.open_in_place_detached(&mut buf[..11 * i + 3], b"aad", &t2).unwrap();
                h.add(&buf);
            }
            // single-shot in-place forms
            let mut buf = *b"single shot in place";
            let mut rng = Script(99);
            let (e, t) = hpke::single_shot_seal_in_place_detached::<A, K, M, _>(&ms, &pk_r, b"i", &mut buf, b"a", &mut rng).unwrap();
            h.add(&e.to_bytes());
            h.add(&buf);
            hpke::single_shot_open_in_place_detached::<A, K, M>(&mr, &sk_r, &e, b"i", &mut buf, b"a", &t).unwrap();
            h.add(&buf);
        }
        let mut out = [0u8; 48];
        snd.export(b"exp", &mut out).unwrap();
        h.add(&out);
        let mut out2 = [0u8; 48];
        rcv.export(b"exp", &mut out2).unwrap();
        h.add(&out2);
        // the same session once more on this thread, and (Auth modes) a sender that presents the same
        // identity PUBLIC key with a different private key: what these produce must not depend on
        // the features either (a std-only cache keyed on part of the inputs shows here)
        if mode >= 2 {
            let (sk_x, _) = M::derive_keypair(b"c17 other sender ikm 0123456789abcdef");
            let mx: OpModeS<M> = if mode == 2 { OpModeS::Auth((sk_x, pk_s.clone())) } else { OpModeS::AuthPsk((sk_x, pk_s.clone()), psk) };
            let mut rng = Script(17 + mode as u64);
            let (enc_x, snd_x) = hpke::setup_sender::<A, K, M, _>(&mx, &pk_r, b"c17 info", &mut rng).unwrap();
            h.add(&enc_x.to_bytes());
            let mut out3 = [0u8; 32];
            snd_x.export(b"exp", &mut out3).unwrap();
            h.add(&out3);
        }
        let mut rng = Script(17 + mode as u64);
        let (enc_again, snd_again) = hpke::setup_sender::<A, K, M, _>(&ms, &pk_r, b"c17 info", &mut rng).unwrap();
        h.add(&enc_again.to_bytes());
        let mut out4 = [0u8; 32];
        snd_again.export(b"exp", &mut out4).unwrap();
        h.add(&out4);
    }
}

fn kem<M: Kem>(name: &str) {
    let mut h = Fnv(0xcbf29ce484222325);
    session::<ChaCha20Poly1305, HkdfSha256, M>(&mut h, true);
    session::<AesGcm128, HkdfSha384, M>(&mut h, true);
    session::<hpke::aead::AesGcm256, HkdfSha512, M>(&mut h, true);
    session::<ExportOnlyAead, HkdfSha256, M>(&mut h, false);
    println!("KEM {} {:016x}", name, h.0);
}

fn main() {
    #[cfg(feature = "x25519")]
    kem::<hpke::kem::X25519HkdfSha256>("x25519");
    #[cfg(feature = "p256")]
    kem::<hpke::kem::DhP256HkdfSha256>("p256");
    #[cfg(feature = "p384")]
    kem::<hpke::kem::DhP384HkdfSha384>("p384");
    #[cfg(feature = "p521")]
    kem::<hpke::kem::DhP521HkdfSha512>("p521");
    println!("DONE");
}
