//! C17 probe: names the allocating interfaces. It must compile exactly when `alloc` or `std` is
//! enabled. Generic over the suite, so no KEM feature is needed.
use hpke::aead::{Aead, AeadCtxR, AeadCtxS};
use hpke::kdf::Kdf;
use hpke::kem::Kem;
use hpke::{HpkeError, OpModeR, OpModeS};
use rand_core::{CryptoRng, RngCore};

pub fn uses_alloc_api<A: Aead, K: Kdf, M: Kem, R: CryptoRng + RngCore>(
    s: &mut AeadCtxS<A, K, M>,
    r: &mut AeadCtxR<A, K, M>,
    ms: &OpModeS<M>,
    mr: &OpModeR<M>,
    sk: &M::PrivateKey,
    pk: &M::PublicKey,
    rng: &mut R,
) -> Result<usize, HpkeError> {
    let ct = s.seal(b"pt", b"aad")?;
    let pt = r.open(&ct, b"aad")?;
    let (enc, ct2) = hpke::single_shot_seal::<A, K, M, R>(ms, pk, b"info", b"pt", b"aad", rng)?;
    let pt2 = hpke::single_shot_open::<A, K, M>(mr, sk, &enc, b"info", &ct2, b"aad")?;
    Ok(pt.len() + pt2.len())
}
