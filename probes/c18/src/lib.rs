//! Static Send + Sync assertions over every suite. Nothing here runs; compiling is the check.
use hpke::aead::{AeadCtxR, AeadCtxS, AeadTag, AesGcm128, AesGcm256, ChaCha20Poly1305, ExportOnlyAead};
use hpke::kdf::{HkdfSha256, HkdfSha384, HkdfSha512};
use hpke::kem::{DhP256HkdfSha256, DhP384HkdfSha384, DhP521HkdfSha512, Kem, SharedSecret, X25519HkdfSha256};
use hpke::{HpkeError, OpModeR, OpModeS, PskBundle};

fn assert_send_sync<T: Send + Sync>() {}

macro_rules! kem_types {
    ($kem:ty) => {
        assert_send_sync::<<$kem as Kem>::PublicKey>();
        assert_send_sync::<<$kem as Kem>::PrivateKey>();
        assert_send_sync::<<$kem as Kem>::EncappedKey>();
        assert_send_sync::<SharedSecret<$kem>>();
        assert_send_sync::<OpModeS<'static, $kem>>();
        assert_send_sync::<OpModeR<'static, $kem>>();
    };
}

macro_rules! ctx_types {
    ($aead:ty, $kdf:ty, $kem:ty) => {
        assert_send_sync::<AeadCtxS<$aead, $kdf, $kem>>();
        assert_send_sync::<AeadCtxR<$aead, $kdf, $kem>>();
    };
}

macro_rules! per_kdf {
    ($aead:ty, $kem:ty) => {
        ctx_types!($aead, HkdfSha256, $kem);
        ctx_types!($aead, HkdfSha384, $kem);
        ctx_types!($aead, HkdfSha512, $kem);
    };
}

macro_rules! per_aead {
    ($kem:ty) => {
        per_kdf!(AesGcm128, $kem);
        per_kdf!(AesGcm256, $kem);
        per_kdf!(ChaCha20Poly1305, $kem);
        per_kdf!(ExportOnlyAead, $kem);
    };
}

pub fn all() {
    assert_send_sync::<HpkeError>();
    assert_send_sync::<PskBundle<'static>>();
    assert_send_sync::<AeadTag<AesGcm128>>();
    assert_send_sync::<AeadTag<AesGcm256>>();
    assert_send_sync::<AeadTag<ChaCha20Poly1305>>();
    assert_send_sync::<AeadTag<ExportOnlyAead>>();
    kem_types!(X25519HkdfSha256);
    kem_types!(DhP256HkdfSha256);
    kem_types!(DhP384HkdfSha384);
    kem_types!(DhP521HkdfSha512);
    per_aead!(X25519HkdfSha256);
    per_aead!(DhP256HkdfSha256);
    per_aead!(DhP384HkdfSha384);
    per_aead!(DhP521HkdfSha512);
}
