#![no_main]
use libfuzzer_sys::fuzz_target;

fuzz_target!(|data: &[u8]| {
    hpke_verif::fuzzdec::fuzz_entry("fz_sender", data);
});
